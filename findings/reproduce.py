"""Reproducers of the defects found on the pinned tree (daf527e); each prints DEFECT or ok.
Run: /venv/bin/python /verif/findings/reproduce.py   (uses /repo/src or $VERIF_REPO/src)"""
import os, sys, warnings
sys.path.insert(0, os.path.join(os.environ.get('VERIF_REPO', '/repo'), 'src'))
warnings.simplefilter('ignore')
import numpy as np, pandas as pd
import ampycloud
from ampycloud.data import CeiloChunk
from ampycloud.errors import AmpycloudError


def frame(rows):
    df = pd.DataFrame(rows, columns=['ceilo', 'dt', 'height', 'type'])
    df['ceilo'] = df['ceilo'].astype(pd.StringDtype()); df['dt'] = df['dt'].astype(float)
    df['height'] = df['height'].astype(float); df['type'] = df['type'].astype(int)
    return df


def d_c14():
    rows = [['a', -15.0 * i, 2400 + (i % 3), 1] for i in range(40)] + [['a', -15.0 * i, 2600 + (i % 3), 2] for i in range(40)]
    ch = CeiloChunk(frame(rows)); ch.find_slices(); ch.find_groups(); ch.find_layers()
    before = (ch.data['group_id'].tolist(), ch.metar_msg())
    try:
        ch.find_groups(); return 'no refusal'
    except AmpycloudError:
        pass
    after = (ch.data['group_id'].tolist(), None)
    return 'DEFECT: refused find_groups rewrote group_id' if before[0] != after[0] else 'ok'


def d_c10():
    a = frame([['a', -15.0 * i, 1000, 1] for i in range(20)]); b = frame([['b', -15.0 * i, 3000, 1] for i in range(20)])
    try:
        ampycloud.run(pd.concat([a, b])).metar_msg(); return 'ok'
    except AmpycloudError as e:
        return 'refused: ' + str(e)[:60]
    except Exception as e:
        return f'DEFECT: {type(e).__name__}: {str(e)[:80]}'


def d_c05():
    rows = [['a', -15.0 * i, 2000 + 800 * i, 1] for i in range(111)]
    rows += [['b', -1.0 * i, 50 + (i % 2) * 300 + (i % 5), 1] for i in range(60)]
    ch = ampycloud.run(frame(rows), prms={'SLICING_PRMS': {'distance_threshold': 0.006}, 'MIN_SEP_VALS': [250], 'MIN_SEP_LIMS': []})
    bad = [int(l) for l in ch.data['layer_id'].unique() if l >= 0 and ch.data.loc[ch.data.layer_id == l, 'group_id'].nunique() > 1]
    nexp = sum(max(1, k) for k in ch.groups['ncomp'])
    return (f'DEFECT: layer ids {bad} span several groups; {ch.n_layers} layers for {nexp} expected' if bad or nexp != ch.n_layers
            else f'ok ({ch.n_slices} slices, {ch.n_groups} groups, {ch.n_layers} layers)')


def d_c08_bundle():
    rows = [['a', -2000.0, 800, 1], ['a', -1000.0, 900, 1]] + [['a', -40.0 + i, 1000 + 12.5 * i, 1] for i in range(41)]
    rows = [[c, t, round(h), k] for c, t, h, k in rows]
    try:
        ampycloud.run(frame(rows), prms={'SLICING_PRMS': {'dt_scale': 100, 'distance_threshold': 1}, 'GROUPING_PRMS': {'height_pad_perc': 50}}).metar_msg()
        return 'ok'
    except AmpycloudError as e:
        return 'refused: ' + str(e)[:60]
    except Exception as e:
        return f'DEFECT: {type(e).__name__}: {str(e)[:80]}'


def d_c08_empty():
    try:
        m = ampycloud.run(frame([['a', 0.0, 5000, 2], ['a', -15.0, 6000, 2]]), prms={'MSA': 1000}).metar_msg()
        return 'ok ' + m
    except AmpycloudError as e:
        return 'refused: ' + str(e)[:60]
    except Exception as e:
        return f'DEFECT: {type(e).__name__}: {str(e)[:80]}'


def d_c06_layers():
    rows = []
    for i in range(40):
        t = -15.0 * (39 - i)
        rows.append(['a', t, 1000 + (i % 3) * 5 - 5, 1])
        rows.append(['a', t, round(1700 - (490.0 * i / 39)), 2])
    rows = rows[::-1]
    ch = ampycloud.run(frame(rows), prms={'BASE_LVL_LOOKBACK_PERC': 50})
    g = ch.groups
    out = []
    for r in range(len(g)):
        if g.at[r, 'ncomp'] >= 2:
            lids = ch.data.loc[ch.data.group_id == g.at[r, 'cluster_id'], 'layer_id'].unique()
            bases = sorted(ch.layers.loc[ch.layers.cluster_id.isin(lids), 'height_base'])
            sep = ch._get_min_sep_for_height(g.at[r, 'height_base'])
            if any(b - a < sep - 1e-9 for a, b in zip(bases, bases[1:])):
                out.append((bases, sep))
    return f'DEFECT: split layers closer than min sep: {out}' if out else 'ok ' + ch.metar_msg()


def d_c06_groups():
    rows = []
    for i in range(30):
        t = -15.0 * (29 - i)
        rows.append(['a', t, 1000 if i < 4 else (1200 if i < 20 else None), 1] if i < 20 else ['a', t, 1400, 1])
        rows.append(['b', t, 1150, 1])
    # ceilometer a: 4 hits at 1000, 16 at 1200, 10 at 1400 ; b: 30 hits at 1150
    ch = ampycloud.run(frame(rows), prms={'SLICING_PRMS': {'distance_threshold': 0.02}, 'BASE_LVL_HEIGHT_PERC': 50,
                                         'EXCLUDE_FOR_BASE_HEIGHT_CALC': ['b']})
    b = ch.groups['height_base'].tolist()
    bad = [(x, y) for x, y in zip(b, b[1:]) if y - x < ch._get_min_sep_for_height(y) - 1e-9]
    return f'DEFECT: groups closer than min sep: {bad}' if bad else f'ok {b}'


def d_c20_emptyplot():
    import matplotlib
    matplotlib.use('Agg')
    from ampycloud.plots import diagnostic
    ch = ampycloud.run(frame([['a', 0.0, 5000, 2], ['a', -15.0, 5100, 2], ['a', -30.0, 5200, 2]]), prms={'MSA': 1000})
    try:
        diagnostic(ch, upto='layers', show=False)
        return 'ok'
    except Exception as e:
        return f'DEFECT: {type(e).__name__}: {str(e)[:80]}'


def d_c12_emptyyaml():
    import tempfile
    p = tempfile.mktemp(suffix='.yml')
    open(p, 'w').write('# MSA: 3000\n')
    try:
        ampycloud.set_prms(p)
        return 'ok'
    except Exception as e:
        return f'DEFECT: {type(e).__name__}: {str(e)[:80]}'
    finally:
        os.unlink(p)
        ampycloud.reset_prms()


def _c10_variant(make):
    from ampycloud.utils import mocker
    base = mocker.canonical_demo_data()
    with warnings.catch_warnings():
        warnings.simplefilter('ignore')
        ref = ampycloud.run(base).metar_msg()
        try:
            got = ampycloud.run(make(base.copy())).metar_msg()
        except Exception as e:
            return f'DEFECT: {type(e).__name__}: {str(e)[:80]}'
    return 'ok' if got == ref else f'DEFECT: {got} instead of {ref}'


def d_c10_namedindex():
    return _c10_variant(lambda df: df.set_index('dt', drop=False))


def d_c10_duplabels():
    def make(df):
        df.insert(0, 'note', 1)
        df.insert(0, 'note', 2, allow_duplicates=True)
        return df
    return _c10_variant(make)


def d_c08_negscores():
    import json
    sys.path.insert(0, os.path.dirname(os.path.dirname(os.path.abspath(__file__))))
    d = json.load(open(os.path.join(os.path.dirname(os.path.abspath(__file__)), 'c08_spike_scene.json')))
    df = pd.DataFrame({'ceilo': [str(r[0]) for r in d['rows']], 'dt': [float(r[1]) for r in d['rows']],
                       'height': [float('nan') if r[2] is None else float(r[2]) for r in d['rows']], 'type': [int(r[3]) for r in d['rows']]})
    df['ceilo'] = df['ceilo'].astype(pd.StringDtype())
    with warnings.catch_warnings():
        warnings.simplefilter('ignore')
        try:
            return 'ok ' + ampycloud.run(df, prms=d['prms']).metar_msg()
        except Exception as e:
            return f'DEFECT: {type(e).__name__}: {str(e)[:80]}'


if __name__ == '__main__':
    for f in (d_c14, d_c10, d_c05, d_c08_bundle, d_c08_empty, d_c06_layers, d_c06_groups, d_c20_emptyplot, d_c12_emptyyaml, d_c10_namedindex, d_c10_duplabels, d_c08_negscores):
        try:
            print(f.__name__, '->', f())
        except Exception as e:
            print(f.__name__, '-> reproducer error', type(e).__name__, str(e)[:200])
