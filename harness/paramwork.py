"""Worker side of C11/C12: abstract actions of spec/ParamsOps.tla executed on the real parameter store."""
import os
import copy
import zlib
import json
import tempfile
import warnings

from . import tracer   # sets sys.path for the repository under test

import numpy as np
import pandas as pd

MSA = {0: None, 1: 5000, 2: 10000}
SEP0 = {0: 250, 1: 300, 2: 400}
SEP1 = {0: 1000, 1: 1100, 2: 1200}
THR = {0: 0.2, 1: 0.1, 2: 0.3}
MR = {0: 1000, 1: 500, 2: 2000}
ROOTS = ['G', 'S1', 'S2', 'U1', 'U2']


def inv(m, x):
    for k, v in m.items():
        if v == x and type(v) is type(x) or (v is None and x is None):
            return k
    for k, v in m.items():
        if v is not None and x is not None and not isinstance(x, (dict, list, str)) and float(v) == float(x):
            return k
    return 9


def nested(has, v):
    d = {}
    if 'msa' in has:
        d['MSA'] = MSA[v]
    if 'sep' in has:
        d['MIN_SEP_VALS'] = [SEP0[v], SEP1[v]]
    if 'thr' in has or 'mr' in has or 'slc.unknown' in has:
        d['SLICING_PRMS'] = {}
        if 'thr' in has:
            d['SLICING_PRMS']['distance_threshold'] = THR[v]
        if 'mr' in has:
            d['SLICING_PRMS']['height_scale_kwargs'] = {'min_range': MR[v]}
        if 'slc.unknown' in has:
            d['SLICING_PRMS']['not_a_key'] = 1
    if 'unknown' in has:
        d['NOT_A_PARAMETER'] = 1
    return d


EXTRAS = [{}, {'EXCLUDE_FOR_BASE_HEIGHT_CALC': 'a', 'MAX_HOLES_OKTA8': 0}, {'GROUPING_PRMS': {'height_scale_range': [500, 100]}, 'EXCLUDE_FOR_BASE_HEIGHT_CALC': ['zz', 'a']},
          {'MIN_SEP_LIMS': [10000], 'LAYERING_PRMS': {'gmm_kwargs': {'scores': 'AIC'}}, 'GROUPING_PRMS': {'height_scale_range': [300, 300]}},
          {'LOWESS': {'frac': 0.5}, 'EXCLUDE_FOR_BASE_HEIGHT_CALC': []}]


def overlay(ref, new):
    """ the documented meaning of a nested partial assignment (driver-side oracle for the leaves outside the model) """
    for k, v in new.items():
        if isinstance(v, dict) and isinstance(ref.get(k), dict):
            overlay(ref[k], v)
        else:
            ref[k] = v
    return ref


def tree_of(d):
    if d is None:
        return {'msa': 0, 'sep': [0, 0], 'thr': 0, 'mr': 0}
    sep = d.get('MIN_SEP_VALS', [250, 1000])
    slc = d.get('SLICING_PRMS', {})
    return {'msa': inv(MSA, d.get('MSA', None)) if 'MSA' in d else 0,
            'sep': [inv(SEP0, sep[0]), inv(SEP1, sep[1])] if isinstance(sep, list) and len(sep) == 2 else [9, 9],
            'thr': inv(THR, slc.get('distance_threshold', 0.2)),
            'mr': inv(MR, slc.get('height_scale_kwargs', {}).get('min_range', 1000))}


def has_of(d):
    h = []
    if d is None:
        return h
    if 'MSA' in d:
        h.append('msa')
    if 'MIN_SEP_VALS' in d:
        h.append('sep')
    s = d.get('SLICING_PRMS', {})
    if 'distance_threshold' in s:
        h.append('thr')
    if 'min_range' in s.get('height_scale_kwargs', {}):
        h.append('mr')
    if 'not_a_key' in s:
        h.append('slc.unknown')
    if 'NOT_A_PARAMETER' in d:
        h.append('unknown')
    return h


def dict_ids(d, acc):
    if isinstance(d, dict):
        acc.add(id(d))
        for v in d.values():
            dict_ids(v, acc)
    return acc


def key_shape(d):
    if isinstance(d, dict):
        return {k: key_shape(v) for k, v in d.items()}
    return None


def rest_digest(d):
    """ digest of every leaf but the four modelled ones """
    c = copy.deepcopy(d)
    c.pop('MSA', None)
    c.pop('MIN_SEP_VALS', None)
    c['SLICING_PRMS'].pop('distance_threshold', None)
    c['SLICING_PRMS'].get('height_scale_kwargs', {}).pop('min_range', None)
    return zlib.crc32(json.dumps(c, sort_keys=True, default=str).encode())


def frame_digest(df):
    return zlib.crc32(df.to_csv().encode() + str(list(df.dtypes)).encode() + str(list(df.index)).encode())


def params_walk(walk):
    import ampycloud
    from ampycloud import dynamic
    from ampycloud.data import CeiloChunk
    from ampycloud.errors import AmpycloudWarning
    ampycloud.reset_prms()
    defaults = dynamic.get_default_prms()
    dshape = key_shape(defaults)
    drest = rest_digest(defaults)
    # two thick adjacent decks: two slices whose padded extents overlap, so that the bundle loop of the grouping step runs
    rows = []
    for i in range(36):
        rows.append(['a', -15.0 * i, 1000 + (i * 37) % 230, 1])
        rows.append(['a', -15.0 * i, 1260 + (i * 53) % 230, 2])
    # the caller's frame comes in the layouts a caller may use: exact dtypes with columns of their own, permuted columns, coercible dtypes
    lays = [None, {'extra': True}, {'extra': True, 'colperm': [5, 2, 4, 0]}, {'colperm': [3, 1, 0, 2]},
            {'dtypes': {'type': 'int32', 'ceilo': 'object'}, 'extra': True}, {'extra': True}]
    frame = tracer.build_frame({'rows': rows, 'layout': lays[zlib.crc32(str(walk['name']).encode()) % len(lays)]})
    snap_extras = {1: {}, 2: {}}
    caller_extras = {1: {}, 2: {}}
    fdig = frame_digest(frame)
    chunks = {1: None, 2: None}
    ran = {1: False, 2: False}
    callers = {1: None, 2: None}
    tmpdir = tempfile.mkdtemp(prefix='verif_yaml_')
    events = []
    try:
        for k, a in enumerate(walk['actions']):
            op, c, u, v, has, path = a['op'], a['c'], a['u'], a['v'], a['has'], a['path']
            if op in ('run', 'sset', 'ssetlist', 'smutlist') and chunks[c] is None:
                continue
            if op == 'umutlist' and (callers[u] is None or 'MIN_SEP_VALS' not in callers[u]):
                continue
            if op == 'uset' and (callers[u] is None or 'MSA' not in callers[u]):
                continue
            exc = ''
            rest_before = {r: rest_digest(x) for r, x in (('G', dynamic.AMPYCLOUD_PRMS),) }
            callers_before = copy.deepcopy(callers)
            with warnings.catch_warnings(record=True) as ws:
                warnings.simplefilter('always')
                try:
                    G = dynamic.AMPYCLOUD_PRMS
                    if op == 'gset':
                        if path == 'msa':
                            G['MSA'] = MSA[v]
                        elif path == 'thr':
                            G['SLICING_PRMS']['distance_threshold'] = THR[v]
                        else:
                            G['SLICING_PRMS']['height_scale_kwargs']['min_range'] = MR[v]
                    elif op == 'gsetlist':
                        G['MIN_SEP_VALS'] = [SEP0[v], SEP1[v]]
                    elif op == 'gmutlist':
                        G['MIN_SEP_VALS'][0] = SEP0[v]
                    elif op == 'yaml':
                        from ruamel.yaml import YAML
                        pth = os.path.join(tmpdir, f'p{k}.yml')
                        with open(pth, 'w') as f:
                            if has:
                                YAML(typ='safe').dump(nested(has, v), f)
                            else:
                                f.write('# every entry of the parameter file is commented out\n# MSA: 3000\n')
                        ampycloud.set_prms(pth)
                    elif op == 'resetall':
                        ampycloud.reset_prms()
                    elif op == 'reset':
                        names = [{'msa': 'MSA', 'sep': 'MIN_SEP_VALS', 'slc': 'SLICING_PRMS'}[x] for x in has]
                        if not names:
                            ampycloud.reset_prms('MSA_HIT_BUFFER')       # a name outside the modelled paths, as a plain string
                        elif len(names) == 1 and k % 2:
                            ampycloud.reset_prms(names[0])               # the documented plain-string form
                        else:
                            ampycloud.reset_prms(names)
                    elif op == 'setcaller':
                        callers[u] = nested(has, v)
                        # leaves outside the modelled paths, lists in an unusual order included (driver's choice, not an abstract action)
                        caller_extras[u] = copy.deepcopy(EXTRAS[(k + len(walk['name'])) % len(EXTRAS)])
                        overlay(callers[u], copy.deepcopy(caller_extras[u]))
                    elif op == 'construct':
                        chunks[c] = CeiloChunk(frame, prms=callers[u] if u else None)
                        snap_extras[c] = copy.deepcopy(caller_extras[u]) if u else {}
                        ran[c] = False
                    elif op == 'run':
                        ch = chunks[c]
                        if not ran[c]:
                            ch.find_slices()
                            ch.find_groups()
                            ch.find_layers()
                            ran[c] = True
                        else:
                            ch.find_slices()
                        ch.metar_msg()
                    elif op == 'sset':
                        if path == 'msa':
                            chunks[c].prms['MSA'] = MSA[v]
                        else:
                            chunks[c].prms['SLICING_PRMS']['height_scale_kwargs']['min_range'] = MR[v]
                    elif op == 'ssetlist':
                        chunks[c].prms['MIN_SEP_VALS'] = [SEP0[v], SEP1[v]]
                    elif op == 'smutlist':
                        chunks[c].prms['MIN_SEP_VALS'][0] = SEP0[v]
                    elif op == 'umutlist':
                        callers[u]['MIN_SEP_VALS'][0] = SEP0[v]
                    elif op == 'uset':
                        callers[u]['MSA'] = MSA[v]
                    else:
                        raise ValueError(op)
                except Exception as e:
                    exc = type(e).__name__ + ': ' + str(e)[:100]
            warned = any(issubclass(w.category, AmpycloudWarning) and 'Key unknown' in str(w.message) for w in ws)
            G = dynamic.AMPYCLOUD_PRMS
            roots = {'G': G, 'S1': chunks[1].prms if chunks[1] is not None else None,
                     'S2': chunks[2].prms if chunks[2] is not None else None, 'U1': callers[1], 'U2': callers[2]}
            t = {r: tree_of(d) for r, d in roots.items()}
            ids = []
            for i, r in enumerate(ROOTS):
                d = roots[r]
                ids.append(id(d['MIN_SEP_VALS']) if d is not None and 'MIN_SEP_VALS' in d else -(i + 1))
            first = {}
            lid = {}
            for r, x in zip(ROOTS, ids):
                if x not in first:
                    first[x] = len(first) + 1
                lid[r] = first[x]
            dsets = {r: dict_ids(d, set()) for r, d in roots.items() if d is not None}
            shared = 0
            rl = list(dsets)
            for i in range(len(rl)):
                for j in range(i + 1, len(rl)):
                    shared += len(dsets[rl[i]] & dsets[rl[j]])
            extrakeys = 0
            restdefault = True
            for r in ('G', 'S1', 'S2'):
                d = roots[r]
                if d is None:
                    continue
                exp = drest if r == 'G' else rest_digest(overlay(copy.deepcopy(defaults), copy.deepcopy(snap_extras[int(r[1])])))
                if key_shape(d) != dshape:
                    extrakeys += 1
                elif rest_digest(d) != exp:
                    restdefault = False
            restsame = rest_digest(G) == rest_before['G'] and callers == callers_before if op in ('construct', 'run') else True
            events.append({'a': {'op': op, 'c': c, 'u': u, 'path': path, 'v': v, 'has': list(has)}, 'exc': exc,
                           'o': {'t': t, 'built': [chunks[1] is not None, chunks[2] is not None],
                                 'has': {'U1': has_of(callers[1]), 'U2': has_of(callers[2])}, 'lid': lid,
                                 'dictshared': shared, 'frameok': frame_digest(frame) == fdig, 'warned': bool(warned),
                                 'extrakeys': extrakeys, 'restdefault': bool(restdefault), 'restsame': bool(restsame)}})
    finally:
        ampycloud.reset_prms()
        import shutil
        shutil.rmtree(tmpdir, ignore_errors=True)
    return {'name': walk['name'], 'events': events}


def prmfile_case(c):
    """ one case of spec/PrmFiles.tla on the real entry points """
    import pathlib
    import ampycloud
    from ampycloud import dynamic
    from ampycloud.errors import AmpycloudWarning
    ampycloud.reset_prms()
    defaults = dynamic.get_default_prms()
    tmpdir = tempfile.mkdtemp(prefix='verif_prmfile_')
    rec = {'c': c, 'res': 'ok', 'exc': '', 'warnsuffix': False, 'warnunknown': False, 'msa_set': False, 'keysok': True,
           'copied_identical': False, 'others_default': True}
    try:
        with warnings.catch_warnings(record=True) as ws:
            warnings.simplefilter('always')
            try:
                if c['fn'] == 'set_prms':
                    base = os.path.join(tmpdir, 'prms' + c['suffix'])
                    if c['target'] == 'dir':
                        os.mkdir(base)
                    elif c['target'] == 'file':
                        with open(base, 'w') as f:
                            f.write({'valid': 'MSA: 4321\n', 'empty': '# MSA: 4321\n', 'unknownkey': 'MSA: 4321\nNOT_A_PRM: 1\n',
                                     'nestedunknown': 'MSA: 4321\nSLICING_PRMS:\n    not_a_key: 2\n'}[c['content']])
                    arg = {'str': base, 'path': pathlib.Path(base), 'int': 5, 'none': None, 'bytes': base.encode()}[c['arg']]
                    ampycloud.set_prms(arg)
                elif c['fn'] == 'copy_prm_file':
                    loc = os.path.join(tmpdir, 'loc')
                    if c['target'] == 'dir':
                        os.mkdir(loc)
                        if c['pre']:
                            open(os.path.join(loc, f'ampycloud_{c["which"]}_prms.yml'), 'w').write('x')
                    elif c['target'] == 'file':
                        open(loc, 'w').write('x')
                    ampycloud.copy_prm_file(save_loc=loc, which=c['which'])
                    src = os.path.join(os.path.dirname(ampycloud.__file__), 'prms', f'ampycloud_{c["which"]}_prms.yml')
                    rec['copied_identical'] = open(src, 'rb').read() == open(os.path.join(loc, f'ampycloud_{c["which"]}_prms.yml'), 'rb').read()
                else:
                    dynamic.AMPYCLOUD_PRMS['MSA'] = 999
                    dynamic.AMPYCLOUD_PRMS['MIN_SEP_VALS'][0] = 1
                    dynamic.AMPYCLOUD_PRMS['SLICING_PRMS']['dt_scale'] = 1
                    arg = {'none': None, 'name': 'MSA', 'list': ['MSA', 'MIN_SEP_VALS', 'SLICING_PRMS'], 'bogus': 'BOGUS',
                           'listbogus': ['MSA', 'BOGUS'], 'emptylist': []}[c['arg']]
                    ampycloud.reset_prms(arg)
            except Exception as e:
                rec['res'], rec['exc'] = 'exc', type(e).__name__
        rec['warnsuffix'] = any(issubclass(w.category, AmpycloudWarning) and 'expecting a .yml' in str(w.message) for w in ws)
        rec['warnunknown'] = any(issubclass(w.category, AmpycloudWarning) and 'Key unknown' in str(w.message) for w in ws)
        G = dynamic.AMPYCLOUD_PRMS
        rec['msa_set'] = G.get('MSA') == 4321
        rec['keysok'] = key_shape(G) == key_shape(defaults)
        g2 = copy.deepcopy(G)
        if c['fn'] == 'set_prms':
            g2['MSA'] = defaults['MSA']
            rec['others_default'] = g2 == defaults
        elif c['fn'] == 'reset_prms':
            exp = copy.deepcopy(defaults)
            if c['arg'] in ('name', 'bogus', 'emptylist'):
                exp['MIN_SEP_VALS'][0] = 1
                exp['SLICING_PRMS']['dt_scale'] = 1
            if c['arg'] in ('bogus', 'emptylist'):
                exp['MSA'] = 999
            rec['others_default'] = g2 == exp
        else:
            rec['others_default'] = g2 == defaults
    finally:
        ampycloud.reset_prms()
        import shutil
        shutil.rmtree(tmpdir, ignore_errors=True)
    return rec
