"""One recorded session = one fresh Python process (own PYTHONHASHSEED): a sequence of ampycloud and user
actions; digests of the global NumPy random state before/after each action, digests of the results.
Usage: python -m harness.sessionwork <in.json> <out.json>"""
import os
import sys
import json
import zlib
import struct
import hashlib
import warnings

os.environ['AMPYCLOUD_VERIF'] = '1'
for _v in ('OMP_NUM_THREADS', 'OPENBLAS_NUM_THREADS', 'MKL_NUM_THREADS'):
    os.environ[_v] = '1'

from . import tracer   # noqa: E402  (sets sys.path for the repository under test)

import numpy as np     # noqa: E402
import pandas as pd    # noqa: E402


def rng_digest():
    st = np.random.get_state()
    h = zlib.crc32(st[1].tobytes())
    h = zlib.crc32(struct.pack('<iid', int(st[2]), int(st[3]), float(st[4])), h)
    return h & 0x3fffffff


def frame_bytes(df):
    parts = []
    for c in df.columns:
        col = df[c]
        if col.dtype.kind in 'fiub':
            parts.append(np.ascontiguousarray(col.to_numpy()).tobytes())
        else:
            parts.append('|'.join(map(str, col.tolist())).encode())
        parts.append(str(col.dtype).encode())
    parts.append(','.join(map(str, df.columns)).encode())
    return b''.join(parts)


def result_digest(chunk):
    h = hashlib.sha256()
    h.update(frame_bytes(chunk.data))
    for w in ('slices', 'groups', 'layers'):
        tb = getattr(chunk, w)
        h.update(frame_bytes(tb))
        h.update(chunk.metar_msg(w).encode())
    h.update(str(chunk.clouds_above_msa_buffer).encode())
    return int(h.hexdigest()[:7], 16)


def datasets():
    from . import randscenes
    import random
    out = []
    for i, size in enumerate(['tiny', 'mid', 'big']):
        d = randscenes.rand_scene(random.Random(f'C09data:{i}'), size)
        # the frames come as a caller may hand them in: columns of their own (several: their order in a set depends on the hash seed),
        # permuted columns
        lay = [{'extra': True, 'colperm': [5, 2, 4, 0]}, {'extra': 'mixed'}, None][i]
        if size == 'big':
            # a long record: one deck seen by four ceilometers over 640 time steps (2560 hits in one slice) plus a thin one above
            r3 = random.Random('C09big')
            rows = []
            for c in ('a', 'b', 'c', 'd'):
                for t in range(640):
                    rows.append([c, -15.0 * (639 - t), 1000 + r3.randint(-120, 120), 1])
                    if t % 9 == 0:
                        rows.append([c, -15.0 * (639 - t), 4000 + r3.randint(-20, 20), 2])
            d = {'rows': rows}
        out.append(tracer.build_frame({'rows': d['rows'], 'layout': lay}))
    # data whose layering is sensitive to the mixture / slicing parameters: the canonical demo data (a group that
    # splits) and a two-level group
    from ampycloud.utils import mocker
    out.append(mocker.canonical_demo_data())
    from . import scenes
    out.append(tracer.build_frame({'rows': scenes.split_desc({'gap': 260, 'old': 300, 'third': 1, 'order': 'shuf', 'lb': 100, 'p': 5}, 3)['rows']}))
    return out


PRMS = [None, {'MSA': 3000, 'MAX_HITS_OKTA0': 1, 'BASE_LVL_LOOKBACK_PERC': 50},
        {'LAYERING_PRMS': {'min_okta_to_split': 1, 'gmm_kwargs': {'scores': 'AIC'}}, 'SLICING_PRMS': {'distance_threshold': 0.1}},
        {'LAYERING_PRMS': {'gmm_kwargs': {'delta_mul_gain': 0.0}}, 'SLICING_PRMS': {'height_scale_kwargs': {'min_range': 8000}}},
        {'MIN_SEP_VALS': [100, 400], 'GROUPING_PRMS': {'height_scale_range': [50, 60]}, 'LOWESS': {'frac': 0.9}}]


def run_session(sess):
    import ampycloud
    from ampycloud.utils import mocker, utils as autils
    data = datasets()
    events = []
    for a in sess['actions']:
        act, d, p, v = a['act'], a.get('d', 0), a.get('p', 0), a.get('v', 0)
        rb = rng_digest()
        res, exc = -1, ''
        try:
            with warnings.catch_warnings():
                warnings.simplefilter('ignore')
                if act == 'run':
                    ch = ampycloud.run(data[d], prms=PRMS[p])
                    res = result_digest(ch)
                elif act == 'demo':
                    df = mocker.canonical_demo_data()
                    res = int(hashlib.sha256(frame_bytes(df)).hexdigest()[:7], 16)
                    d, p = 9, 0
                elif act == 'gmm':
                    from . import fnwork
                    res = fnwork.gmm_direct([0, 1, 42][int(v) % 3])
                    d, p = 8, int(v) % 3
                elif act == 'tmpok':
                    with autils.tmp_seed(int(v)):
                        np.random.random(3)
                elif act == 'tmpraise':
                    try:
                        with autils.tmp_seed(int(v)):
                            np.random.random(2)
                            raise KeyError('body of tmp_seed raises')
                    except KeyError:
                        pass
                elif act == 'seed':
                    np.random.seed(int(v))
                elif act == 'draw':
                    np.random.random(int(v) + 1)
                elif act == 'gauss':
                    np.random.normal(size=2 * int(v) + 1)        # an odd number of deviates: one stays cached in the state
                else:
                    raise ValueError(act)
        except Exception as e:
            exc = type(e).__name__ + ': ' + str(e)[:80]
        events.append({'act': act, 'd': d, 'p': p, 'rb': rb, 'ra': rng_digest(), 'res': res, 'exc': exc})
    return {'name': sess['name'], 'hashseed': os.environ.get('PYTHONHASHSEED', ''), 'events': events}


if __name__ == '__main__':
    with open(sys.argv[1]) as f:
        s = json.load(f)
    out = run_session(s)
    with open(sys.argv[2], 'w') as f:
        json.dump(out, f)
