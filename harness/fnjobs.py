"""Function-table jobs: each job is a JSON file handed to spec/FnTables.tla (one TLC process per job,
run in parallel); TLC prints, per clause, the set of keys on which the clause fails."""
import os
import json
import shutil
import tempfile
from concurrent.futures import ThreadPoolExecutor

from . import tlc
from .framework import Machinery


def run_jobs(jobs, module='FnTables', par=16, timeout=3600, extra_env=None):
    """ jobs: list of dicts (must contain 'kind', 'lo', 'hi'); returns list of {clause: [failing keys]} """
    tmp = tempfile.mkdtemp(prefix='verif_fn_')
    try:
        def one(i):
            path = os.path.join(tmp, f'job_{i}.json')
            with open(path, 'w') as f:
                json.dump(jobs[i], f)
            r = tlc.run_tlc(module, 'SPECIFICATION Spec\nCHECK_DEADLOCK FALSE\n', env=dict({'JOB_FILE': path}, **(extra_env or {})), workers=1, timeout=timeout, xmx='3g')
            if r['error'] or r['violated']:
                raise Machinery(f'function-table job {i} ({jobs[i].get("kind")}) failed:\n{r["error"] or r["out"][-2000:]}')
            res = {}
            for tup in tlc.extract_tuples(r['out'], 'R'):
                v = tlc.parse_value(tup)
                res[v[1]] = v[2]
            if not res:
                raise Machinery(f'function-table job {i}: no report lines')
            return res
        with ThreadPoolExecutor(max_workers=par) as ex:
            return list(ex.map(one, range(len(jobs))))
    finally:
        shutil.rmtree(tmp, ignore_errors=True)
