"""Shared machinery of the checks: worker pool running the real code, TLC as judge, verdict policy
(VIOLATION / KNOWN-FINDING / DRIFT / machinery failure), evidence and replay files."""
import os
import sys
import json
import time
import hashlib
import random
import traceback
from concurrent.futures import ProcessPoolExecutor
import multiprocessing as mp

from . import tlc

VERIF = tlc.VERIF
EVID = os.path.join(VERIF, 'evidence')
REPLAYS = os.path.join(VERIF, 'replays')
KNOWN = os.path.join(VERIF, 'known_findings.json')
NPROC = int(os.environ.get('VERIF_NPROC', '16'))


class Machinery(Exception):
    """ exit 2: the machinery failed; never reported as a violation """


def seed_of():
    try:
        return int(os.environ.get('VERIF_SEED', '0'))
    except ValueError:
        return 0


def tier_of(arg):
    t = os.environ.get('VERIF_TIER') or arg or 'quick'
    return t if t in ('quick', 'thorough') else 'quick'


# ------------------------------------------------------------------------------------------------
# worker pool: every execution of the real code happens in fresh worker processes that import
# /repo/src (or VERIF_REPO) at start, so checks always see the current working tree
# ------------------------------------------------------------------------------------------------
def _init_worker():
    os.environ['AMPYCLOUD_VERIF'] = '1'
    for v in ('OMP_NUM_THREADS', 'OPENBLAS_NUM_THREADS', 'MKL_NUM_THREADS'):
        os.environ[v] = '1'
    os.environ['MPLBACKEND'] = 'Agg'
    import warnings
    warnings.simplefilter('ignore')
    import logging
    logging.disable(logging.CRITICAL)


def _call(args):
    modname, fname, item = args
    import importlib
    mod = importlib.import_module(modname)
    try:
        return getattr(mod, fname)(item)
    except Exception:
        return {'worker_error': traceback.format_exc()[-3000:], 'item': str(item)[:500]}


def pool_map(modname, fname, items, nproc=None, chunksize=None):
    """ run harness function modname.fname over items in fresh processes """
    items = list(items)
    if not items:
        return []
    nproc = min(nproc or NPROC, max(1, len(items)))
    ctx = mp.get_context('spawn')
    if chunksize is None:
        chunksize = max(1, min(64, len(items) // (nproc * 4) or 1))
    with ProcessPoolExecutor(max_workers=nproc, mp_context=ctx, initializer=_init_worker) as ex:
        out = list(ex.map(_call, [(modname, fname, it) for it in items], chunksize=chunksize))
    errs = [o for o in out if isinstance(o, dict) and 'worker_error' in o]
    if errs:
        raise Machinery('worker failed:\n' + errs[0]['worker_error'] + '\nitem: ' + errs[0]['item'])
    return out


def run_scenarios(descs):
    """ run scenario descriptors through the real code; returns (traces, inexact) with tids assigned """
    out = pool_map('harness.tracer', 'run_scenario', descs)
    traces, inexact = [], []
    for i, (d, t) in enumerate(zip(descs, out)):
        if 'inexact' in t:
            inexact.append({'name': d.get('name', ''), 'why': t['inexact']})
            continue
        t['tid'] = len(traces) + 1
        t['_desc'] = d
        traces.append(t)
    return traces, inexact


def strip(tr):
    return {k: v for k, v in tr.items() if not k.startswith('_')}


# ------------------------------------------------------------------------------------------------
# verdicts
# ------------------------------------------------------------------------------------------------
def load_known():
    if not os.path.exists(KNOWN):
        return {'open': [], 'fixed': []}
    with open(KNOWN) as f:
        return json.load(f)


def sha(obj):
    return hashlib.sha256(json.dumps(obj, sort_keys=True, default=str).encode()).hexdigest()[:16]


def write_replay(pid, kind, payload):
    d = os.path.join(REPLAYS, pid)
    os.makedirs(d, exist_ok=True)
    path = os.path.join(d, sha(payload) + '.json')
    with open(path, 'w') as f:
        json.dump({'property': pid, 'kind': kind, 'payload': payload}, f)
    return path


class Outcome:
    """ accumulates what one check run found """

    def __init__(self, pid, tier, seed):
        self.pid, self.tier, self.seed = pid, tier, seed
        self.t0 = time.time()
        self.violations = []      # (clause, replay path, short text)
        self.known = []           # text
        self.drift = {}           # clause -> count
        self.other = {}           # clauses of other properties seen failing -> count
        self.marks = {}           # mark -> number of distinct traces exercising it
        self.cov = {}
        self.assumptions = []
        self.samples = []
        self.notes = []

    def add_marks(self, marks_by_trace):
        for ms in marks_by_trace:
            for m in set(ms):
                self.marks[m] = self.marks.get(m, 0) + 1

    def violation(self, clause, kind, payload, text, known_matcher=None):
        kf = load_known()
        for ent in kf.get('open', []):
            if ent.get('property') == self.pid and known_matcher and known_matcher(ent, clause, payload):
                msg = f"KNOWN-FINDING: property={self.pid} {ent.get('what', clause)}"
                if msg not in self.known:
                    self.known.append(msg)
                return
        path = write_replay(self.pid, kind, payload)
        self.violations.append((clause, path, text))

    def finish(self, level, coverage, level_for_exit=None):
        wall = time.time() - self.t0
        cov = dict(coverage)
        cov.setdefault('samples', self.samples[:5] or [{'note': 'no sample recorded'}])
        cov['drift_clauses'] = self.drift
        cov['drift_witnesses'] = [n for n in self.notes if isinstance(n, dict) and 'drift' in n][:6]
        cov['other_property_failures'] = self.other
        cov['nontrivial_marks'] = self.marks
        ev = {'property_id': self.pid, 'tier': self.tier, 'seed': self.seed, 'level': level,
              'coverage': cov, 'assumptions': self.assumptions, 'wall_s': round(wall, 2),
              'violations': len(self.violations)}
        os.makedirs(EVID, exist_ok=True)
        with open(os.path.join(EVID, self.pid + '.json'), 'w') as f:
            json.dump(ev, f, indent=1, default=str)
        for k in self.known:
            print(k)
        for c, n in sorted(self.drift.items()):
            print(f'DRIFT clause={c} count={n} (implementation-level mismatch; no property clause failed)')
        seen = set()
        for clause, path, text in self.violations:
            if path in seen:
                continue
            seen.add(path)
            print(f'VIOLATION property={self.pid} replay={path}')
            print(f'  clause={clause} {text}')
            if len(seen) >= 10:
                print(f'  ... {len(self.violations)} violating steps in total')
                break
        print(f'[{self.pid}] tier={self.tier} seed={self.seed} wall={wall:.1f}s violations={len(self.violations)} '
              f'evaluations={cov.get("evaluations", "?")}')
        return 1 if self.violations else 0


def judge_traces(out, traces, clause_prefixes, module='TraceChunk', text_of=None, known_matcher=None, shards=None):
    """ Validate traces with TLC; property-level failing clauses with one of the prefixes become
    violations of out.pid, I_* become drift, other C* are noted. Returns (verdicts, stats). """
    verdicts, stats = tlc.validate_traces([strip(t) for t in traces], module=module, shards=shards)
    bytid = {t['tid']: t for t in traces}
    marks_by_trace = []
    for tid, vs in verdicts.items():
        tr = bytid[tid]
        allmarks = set()
        for step, fails, marks in sorted(vs):
            allmarks.update(marks)
            for c in fails:
                if c.startswith('I_'):
                    out.drift[c] = out.drift.get(c, 0) + 1
                    if out.drift[c] <= 2:          # keep a witness: drift means the implementation-level model needs re-aligning
                        out.notes.append({'drift': c, 'step': step, 'replay': write_replay(out.pid, 'scenario', {'desc': tr['_desc'], 'clause': c, 'step': step})})
                elif any(c.startswith(p) for p in clause_prefixes):
                    ev = tr['events'][step - 1]
                    txt = (text_of(tr, step, c) if text_of else
                           f"scenario={tr.get('name', '')} step={step} op={ev['op']}({ev.get('arg', '')})")
                    out.violation(c, 'scenario', {'desc': tr['_desc'], 'clause': c, 'step': step}, txt, known_matcher)
                else:
                    out.other[c] = out.other.get(c, 0) + 1
        marks_by_trace.append(allmarks)
    out.add_marks(marks_by_trace)
    return verdicts, stats


def mc_run(name, module, cfg_text, timeout=3600, coverage=False, workers=16, env=None, expect_violation=None):
    """ model-check one configuration; raises Machinery unless the outcome is the expected one """
    args = ['-coverage', '1'] if coverage else []
    try:
        r = tlc.run_tlc(module, cfg_text, workers=workers, args=args, timeout=timeout, env=env)
    except tlc.TLCFailure as e:
        raise Machinery(str(e))
    if expect_violation:
        if r['violated'] != expect_violation:
            raise Machinery(f"MC {name}: expected violation of {expect_violation}, got {r['violated']} / {r['error']}")
    else:
        if r['violated'] or r['error']:
            raise Machinery(f"MC {name}: unexpected result: violated={r['violated']} error={r['error']}\n" + r['out'][-2500:])
    return {'name': name, 'module': module, 'states': r['distinct'], 'transitions': r['generated'], 'depth': r['depth'],
            'wall_s': round(r['wall_s'], 1), 'violated': r['violated'],
            'coverage': tlc.coverage_counts(r['out']) if coverage else None}


def run_pairs(pdescs):
    out = pool_map('harness.tracer', 'run_pair', pdescs)
    pairs, inexact = [], []
    for d, t in zip(pdescs, out):
        if 'inexact' in t:
            inexact.append({'name': d.get('name', ''), 'why': t['inexact']})
            continue
        t['tid'] = len(pairs) + 1
        t['_desc'] = d
        pairs.append(t)
    return pairs, inexact


def judge_pairs(out, pairs, clause_prefixes, known_matcher=None):
    """ TLC replays the pairs in lock-step (spec/TracePair.tla) """
    def as_trace(p):
        q = strip(p)
        # for shard balancing and the completeness count: the lock-step replay stops with the shorter run (a run that
        # stops early was refused, which the SameOutcome clause reports)
        q['events'] = q['a']['events'] if len(q['a']['events']) <= len(q['b']['events']) else q['b']['events']
        return q
    flat = [as_trace(p) for p in pairs]
    verdicts, stats = tlc.validate_traces(flat, module='TracePair')
    bytid = {p['tid']: p for p in pairs}
    marks_by = []
    for tid, vs in verdicts.items():
        p = bytid[tid]
        allm = set()
        for step, fails, marks in sorted(vs):
            allm.update(marks)
            for c in fails:
                if c == 'X_SameLength':
                    continue
                if c.startswith('X_'):
                    raise Machinery(f"pair {p['name']}: {c} at step {step} (the driver did not produce the intended relation)")
                if any(c.startswith(pre) for pre in clause_prefixes):
                    ev = p['a']['events'][step - 1]
                    out.violation(c, 'pair', {'desc': p['_desc'], 'clause': c, 'step': step},
                                  f"pair={p['name']} kind={p['kind']} step={step} op={ev['op']}({ev.get('arg', '')})", known_matcher)
                else:
                    out.other[c] = out.other.get(c, 0) + 1
        marks_by.append(allm)
    out.add_marks(marks_by)
    return verdicts, stats
