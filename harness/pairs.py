"""Paired scenarios (family F5): a base scene and a transformed twin under which the outcome must not
change.  The relation between the two inputs is re-checked by TLC (TracePair!Premise)."""
import copy
import random

from . import randscenes

INDEX_MODES = ['perceilo', 'const', 'shuffled', 'offset', 'str', 'float', 'named', 'dtindex', 'multi']
LAYOUTS = [
    {'colperm': [3, 1, 0, 2]},
    {'extra': True},
    {'extra': True, 'colperm': [5, 2, 4, 0]},
    {'dtypes': {'ceilo': 'object'}},
    {'dtypes': {'ceilo': 'str'}},
    {'dtypes': {'dt': 'int_if_exact'}},
    {'dtypes': {'height': 'int_if_exact'}},
    {'dtypes': {'type': 'float'}},
    {'dtypes': {'type': 'int8'}},
    {'dtypes': {'type': 'int32', 'ceilo': 'object'}, 'extra': True},
    {'extra': 'mixed'},
    {'extra': 'dup'},
    {'dtypes': {'height': 'float32'}},
    {'dtypes': {'dt': 'str', 'height': 'str', 'type': 'str', 'ceilo': 'str'}},          # e.g. a frame built from a 2-D array of strings
    {'dtypes': {'height': 'object', 'dt': 'object'}},
    {'extra': 'mixed', 'colperm': [6, 0, 3, 1]},
]


def limit_of(prms):
    if prms.get('MSA') is None:
        return None
    return prms['MSA'] + prms.get('MSA_HIT_BUFFER', 1500)


def with_msa_edges(desc, rng):
    """ make sure an MSA is set and some hits sit at limit-1, limit, limit+1 and well above """
    d = copy.deepcopy(desc)
    prms = d['prms']
    hs = sorted(r[2] for r in d['rows'] if r[2] is not None)
    if prms.get('MSA') is None:
        prms['MSA'] = rng.choice([0, 500, 1000] + (hs[len(hs) // 2:len(hs) // 2 + 1] if hs else []))
        prms.setdefault('MSA_HIT_BUFFER', rng.choice([0, 100, 1500]))
    lim = limit_of(prms)
    # move a few of the highest hits of some measurements onto the boundary values
    tops = {}
    for i, r in enumerate(d['rows']):
        if r[2] is not None:
            key = (r[0], r[1])
            if key not in tops or d['rows'][tops[key]][2] < r[2]:
                tops[key] = i
    idxs = list(tops.values())
    rng.shuffle(idxs)
    for i, v in zip(idxs[:4], [lim - 1, lim, lim + 1, lim + 2500]):
        below = [r[2] for r in d['rows'] if (r[0], r[1]) == (d['rows'][i][0], d['rows'][i][1]) and r[2] is not None and r is not d['rows'][i]]
        if v >= 0 and all(b < v for b in below) and v < 100000:
            d['rows'][i][2] = v
    return d


def c07_pair(base, kind, rng, name):
    a = copy.deepcopy(base)
    b = copy.deepcopy(base)
    lim = limit_of(a['prms'])
    rows = []
    for r in b['rows']:
        if r[2] is not None and r[2] > lim:
            if kind == 'c07new':
                rows.append([r[0], r[1], min(99999, lim + rng.choice([1, 2, 50, 1000, 7777, 40000])), r[3]])
            elif r[3] <= 1:
                rows.append([r[0], r[1], None, 0])
            # second and higher hits above the limit are removed
        else:
            rows.append(list(r))
    b['rows'] = rows
    # replacing by non-detections must not create duplicated rows
    seen = set()
    for r in rows:
        k = tuple(r)
        if k in seen:
            return None
        seen.add(k)
    if not rows:
        return None
    return {'kind': kind, 'name': name, 'a': a, 'b': b}


def c07_pairs(seed, n, sizes=('tiny', 'mid')):
    out = []
    i = 0
    while len(out) < n and i < 20 * n:
        rng = random.Random(f'C07:{seed}:{i}')
        size = sizes[0] if rng.random() < 0.8 else sizes[-1]
        base = randscenes.rand_scene(rng, size, name=f'C07base-{seed}-{i}')
        base = with_msa_edges(base, rng)
        base['prms']['MAX_HITS_OKTA0'] = rng.choice([0, 1, 2, 3])
        kind = 'c07new' if i % 2 == 0 else 'c07blank'
        if kind == 'c07new' and rng.random() < 0.35:
            # the hits of a measurement need not be ranked by height: the first hit becomes the highest one
            meas = {}
            for r in base['rows']:
                if r[2] is not None and r[3] >= 1:
                    meas.setdefault((r[0], r[1]), []).append(r)
            for rs in meas.values():
                if len(rs) >= 2:
                    for r, k in zip(sorted(rs, key=lambda x: -x[2]), sorted(x[3] for x in rs)):
                        r[3] = k
        p = c07_pair(base, kind, rng, f'{kind}:{seed}:{i}')
        i += 1
        if p is not None:
            out.append(p)
    return out


def c10_pairs(seed, n, sizes=('tiny', 'mid')):
    out = []
    for i in range(n):
        rng = random.Random(f'C10:{seed}:{i}')
        size = sizes[0] if rng.random() < 0.8 else sizes[-1]
        base = randscenes.rand_scene(rng, size, name=f'C10base-{seed}-{i}')
        base.pop('index', None)
        if i % 3 == 0:
            base = with_msa_edges(base, rng)
        b = copy.deepcopy(base)
        v = i % (len(INDEX_MODES) + len(LAYOUTS))
        if v < len(INDEX_MODES):
            b['index'] = INDEX_MODES[v]
            if rng.random() < 0.3:
                b['layout'] = rng.choice(LAYOUTS)
        else:
            b['layout'] = LAYOUTS[v - len(INDEX_MODES)]
            if rng.random() < 0.3:
                b['index'] = rng.choice(INDEX_MODES)
        out.append({'kind': 'c10', 'name': f'c10:{seed}:{i}:{b.get("index", "")}:{b.get("layout", "")}', 'a': base, 'b': b})
    return out


RENAMINGS = [
    lambda cs: {c: n for c, n in zip(cs, reversed(['A', 'B', 'C'][:len(cs)]))},            # order-reversing
    lambda cs: {c: n for c, n in zip(cs, ['9', '10', '100'])},                               # sort differently as strings
    lambda cs: {c: n for c, n in zip(cs, ['10', '9', '1'])},
    lambda cs: {c: n for c, n in zip(cs, [' ', '  ', '   '])},                              # blank-ish
    lambda cs: {c: n for c, n in zip(cs, ['x' * 60, 'x' * 61, 'y' * 200])},                   # long
    lambda cs: {c: n for c, n in zip(cs, cs[1:] + cs[:1])},                                  # a cyclic permutation of the same names
    lambda cs: {c: n for c, n in zip(cs, ['x', 'x-3', 'x-6'])},                              # a name + the text of a time = another name + another time
    lambda cs: {c: n for c, n in zip(cs, ['LSZH-12', 'LSZH', 'LSZH-9'])},
    lambda cs: {c: n for c, n in zip(cs, ['1', '1-1', '1-15'])},
    lambda cs: {c: n for c, n in zip(cs, ['08', '7', '10'])},                                # numeric names that are not the canonical spelling of their value
    lambda cs: {c: n for c, n in zip(cs, ['007', '10', '9'])},
    lambda cs: {c: n for c, n in zip(cs, ['01', '1', '001'])},
    lambda cs: {c: n for c, n in zip(cs, ['nan', 'None', ''])} if len(cs) < 3 else {c: n for c, n in zip(cs, ['nan', 'None', 'NA'])},
]


def c16_pairs(seed, n, sizes=('tiny', 'mid')):
    out = []
    for i in range(n):
        rng = random.Random(f'C16:{seed}:{i}')
        size = sizes[0] if rng.random() < 0.8 else sizes[-1]
        base = randscenes.rand_scene(rng, size, name=f'C16base-{seed}-{i}')
        cs = sorted({r[0] for r in base['rows']})
        if rng.random() < 0.6:
            k = rng.randint(1, len(cs))
            base['prms']['EXCLUDE_FOR_BASE_HEIGHT_CALC'] = sorted(rng.sample(cs, k))
        if rng.random() < 0.5:
            base['prms']['BASE_LVL_LOOKBACK_PERC'] = rng.choice([70, 50, 30])
        rho = RENAMINGS[i % len(RENAMINGS)](cs)
        if len(set(rho.values())) < len(cs) or len(rho) < len(cs):
            rho = {c: f'n{j}' for j, c in enumerate(cs)}
        b = copy.deepcopy(base)
        b['rows'] = [[rho[r[0]], r[1], r[2], r[3]] for r in b['rows']]
        clash = False
        for blk in ('prms', 'gprms', 'gedit'):
            ex = (b.get(blk) or {}).get('EXCLUDE_FOR_BASE_HEIGHT_CALC')
            if ex is not None:
                b[blk]['EXCLUDE_FOR_BASE_HEIGHT_CALC'] = [rho.get(c, c) for c in ex]
            # names not in the data that stay in the exclusion list must not collide with new names
            if blk != 'gedit' and ex and any(c not in rho and c in rho.values() for c in ex):
                clash = True
        if clash:
            continue
        out.append({'kind': 'c16', 'name': f'c16:{seed}:{i}', 'a': base, 'b': b, 'rho': [[k, v] for k, v in rho.items()]})
    return out
