"""Writes /verif/MANIFEST.json (python -m harness.manifest)."""
import os
import json

VERIF = os.path.dirname(os.path.dirname(os.path.abspath(__file__)))

MC = 'model_checking'
CHECKS = {
 'C01': (MC, 'TLC model-checks Chunk.tla (message assembly for every frame, MSA position and oracle outcome of the instance); TLC-enumerated abstract layer tables (okta sequences x MSA positions incl. equality x high-cloud classes) are realised by the real pipeline and every metar_msg event of every trace is judged by the grammar / order / SCT / BKN / stands-for clauses of Props.tla',
         '7', 'TLA+ model + TLC; trace validation of the real code; spec-generated layer tables'),
 'C02': (MC, 'same machinery as C01 with the clauses First / Ceiling / Listed / NCD / NSC; the high-cloud condition is recomputed from the raw input, not read from the chunk flag', '7',
         'TLA+ model + TLC; trace validation; spec-generated layer tables'),
 'C03': (MC, 'TLC checks Okta / Perc2Okta on the model instance; all (n, m) one-layer scenes up to the bound (x buffers x multi-hit x 1-2 ceilometers) go through the real pipeline; every table row of every trace is re-derived by TLC from the per-hit ids (distinct (ceilo, time) measurements, percentage, okta set, prefix)', '7',
         'TLA+ model + TLC; trace validation; exhaustive (n, m) scenes'),
 'C04': (MC, 'TLC re-derives every base height from the member hits (look-back window with free tie order, exclusion with fall-back, numpy percentile on integers), min/max/thickness/mean/std, coding never upward, sortedness, on every table of every trace; band layouts and split layouts enumerated by TLC', '7',
         'TLA+ model + TLC; trace validation with exact integer arithmetic'),
 'C05': (MC, 'partition / table-vs-ids / layer-in-one-group / ncomp-count / no-hit-altered clauses on every trace; Chunk.tla with arbitrary slice and group oracles; LayerIds.tla with the real id constants (pinned scheme violates, repaired passes); stress scenes with > 100 slices', '7',
         'TLA+ model + TLC; trace validation; id-space model'),
 'C06': (MC, 'merge loop and mixture re-merge modelled as in the code; invariants for every oracle outcome; sensitivity instances (pinned variants violate in thorough tier); band and split layouts through the real code, C06_Groups / C06_Layers judged by TLC with the raw mixture count tapped', '7',
         'TLA+ model + TLC; trace validation; spec-derived merge/split scenes'),
 'C07': (MC, 'MC_Pair.tla: cropping invariant under every substitution above the limit on all frames of the instance; pairs of real executions (new heights above the limit / blanked) replayed in lock-step by TLC (TracePair), premise re-checked by TLC; single runs judged for flag / kept / no-MSA', '7',
         'relational TLA+ spec + TLC; paired trace validation'),
 'C08': ('exploration', 'every sequence of stage calls up to a bound on hand-driven chunks (refusals must be AmpycloudError, judged against the call-order machine of StageOps); degenerate and boundary scene kinds (several derived from the model: one-hit bundle, empty cropped chunk) x parameter sets keeping their documented meaning through run() + metar_msg(); TLC judges C08_Total / OnlyAmpycloudError / ReturnsString on every step; third-party numerics are exercised, not modelled', '7',
         'spec-guided exploration judged by TLC'),
 'C09': (MC, 'Session.tla complete; sessions in fresh processes with PYTHONHASHSEED 0/1/random/12345, each with its own history of runs, seeds, uniform and normal draws, demo data, raising tmp_seed bodies, direct mixture calls with explicit seeds; TLC replays: random-state digest unchanged by ampycloud actions, results equal to earlier ones and to the reference process', '7',
         'TLA+ session model + TLC; trace validation across processes'),
 'C10': (MC, 'MC_Pair.tla: positional vs label-based selection (label-based variant violates with repeated labels); pairs (index relabellings incl. repeated labels, column permutations, extra columns, dtype variants) replayed by TLC: same tables (bit digests), ids, message', '7',
         'relational TLA+ spec + TLC; paired trace validation'),
 'C11': (MC, 'Params.tla (values and list-object identities) explored to a depth bound; walks over the full action alphabet (TLC -simulate behaviours of Params.tla, all ordered pairs of a reduced alphabet, random walks) on the real module; TLC judges construct-keeps / global-edit-no-effect / snapshot-edit-no-leak / private / no-dict-shared / frame-untouched on observed states and compares with the spec step; pipeline pairs (TracePair kind c11): a scene with the global dictionary left alone vs edited after the construction and before every later call', '7',
         'TLA+ heap-identity model + TLC; trace validation of parameter-store walks'),
 'C12': (MC, 'Params.tla: overlay semantics, equivalence of the three routes, overrides win, reset; walks (TLC -simulate behaviours, pairs, random) incl. YAML through set_prms (empty files, null values) and reset_prms; decision tables of the parameter-file entry points (PrmFiles.tla); pipeline-level pairs: per-call vs global vs YAML vs poisoned global give identical tables / ids / messages', '7',
         'TLA+ model + TLC; trace validation; route pairs'),
 'C13': (MC, 'Interleave.tla emits every schedule: all 252 interleavings of 2x5 stages (and 3x4, sampled in quick) driven through real chunks with the global dictionary poisoned in between; real threads under a settrace token scheduler pre-empting at ampycloud source lines (chosen counts, or every line of named functions) on seed-sensitive and parameter-sensitive data, and the same hits in every chunk; TLC compares every chunk stage by stage with its isolated run', '7',
         'TLA+ interleaving model + TLC; schedule replay; paired trace validation'),
 'C14': (MC, 'Stage.tla complete for any call sequence; its dumped graph is walked (every edge, all sequences up to the bound, sampled long walks) on merging+splitting / merge-only / two-deck / simple / MSA-buffer / all-NaN scenes; TLC replays against StageOps and the canonical run', '7',
         'TLA+ state machine + TLC graph dump; walk replay; trace validation'),
 'C15': (MC, 'Screening.tla enumerates abstract frames (all multisets of rows up to the bound x dtype variants x extra columns x missing columns x non-frames); the real check_data_consistency is run on each and a CeiloChunk is constructed from each (without MSA and with an MSA below every height, and from the same frame derived by pandas operations from a previously checked frame or from chunk data); TLC judges raised <=> Rejects(frame) for both, and the normalisation clauses; frames from mocker.mock_layers judged for well-formedness (implementation level)', '7',
         'TLA+ case analysis + TLC; exhaustive spec-generated inputs'),
 'C16': (MC, 'MC_Pair.tla: tables invariant under every bijection of names for every slicing outcome; renamed twins (order-reversing, 9/10, blank-ish, long names; exclusion mapped) replayed by TLC: bit-identical tables, ids, message', '7',
         'relational TLA+ spec + TLC; paired trace validation'),
 'C17': (MC, 'ICAOAuto.tla: fold = declarative rule on the finite product automaton (any length); the real function tabulated over ALL okta sequences up to the bound, TLC checks completeness, the declarative rule, prefix independence, one flag per layer', '7',
         'TLA+ automaton + TLC; exhaustive function table'),
 'C18': (MC, 'WMO.tla transcriptions checked on the whole finite domain; the real functions tabulated (all n/m up to the bound scalar+array, heights grid + float neighbours of every boundary, okta2code domain, refusals incl. after equal-valued integers, repeated calls on the same array), tables judged by TLC', '7',
         'TLA+ transcription + TLC; exhaustive function tables'),
 'C19': (MC, 'Scaler.tla over exact rationals: every enumerated case checked on the transcription and through the real apply_scaling / convert_kwargs; TLC judges order, undo, [0,1], min_range, continuity, NaN blindness', '7',
         'TLA+ transcription over rationals + TLC; spec-generated cases'),
 'C20': ('exploration', 'frame conditions of Plot(c, opts) in TracePlots.tla; sessions of diagnostic() calls over chunk classes x upto x options x a global dictionary that differs between run() and the plot; TLC judges total / chunk, rcParams, global untouched / no figure left / exactly the requested files; matplotlib itself is exercised, not modelled', '7',
         'spec-guided exploration judged by TLC'),
}
NOTE = ('trusted base: TLC 1.8.0 and the CommunityModules; the tracer/projection code under /verif/harness (floats -> scaled integers, refusing values off the lattice); '
        'numpy/pandas/scikit-learn/statsmodels/matplotlib as installed; small-constant model instances; sampled real-size scenes; integer heights in [0, 100000)')


def main():
    checks = []
    for pid in sorted(CHECKS):
        cat, text, ref, tech = CHECKS[pid]
        checks.append({'property_id': pid, 'quick_cmd': f'./check {pid} --tier quick', 'thorough_cmd': f'./check {pid} --tier thorough',
                       'evidence_file': f'/verif/evidence/{pid}.json', 'replay_cmd_template': f'./check {pid} --replay {{path}}',
                       'engine': 'tlc', 'level_claimed': {'category': cat, 'text': text, 'design_ref': 'DESIGN.md section ' + ref},
                       'level_note': NOTE, 'technique': tech})
    m = {'version': 1, 'setup_cmd': './check setup',
         'hooks': {'guard': 'AMPYCLOUD_VERIF',
                   'enable': 'no source hooks: harness worker processes set AMPYCLOUD_VERIF=1, import /repo/src (or $VERIF_REPO/src) and wrap the public calls and oracle functions at run time (harness/tracer.py)',
                   'baseline_off_cmd': 'cd /repo && /venv/bin/python -m pytest -ra -q -p no:cacheprovider --timeout=900 --continue-on-collection-errors',
                   'source_commits': [], 'add_only': True},
         'engines': [{'name': 'tlc', 'path': '/opt/veriftools/tla/tla2tools.jar', 'serves_properties': sorted(CHECKS),
                      'kind_free_text': 'TLA+ specification under /verif/spec model-checked by TLC; TLC also judges traces recorded from the real code and generates scenarios'}],
         'checks': checks, 'not_applicable': [],
         'notes': 'Genuine defects found on the pinned tree were repaired by twelve unguarded "fix:" commits in /repo (see known_findings.json and DESIGN.md section 8). '
                  'VERIF_REPO=<dir> redirects every check to another tree (used for seeded changes).'}
    with open(os.path.join(VERIF, 'MANIFEST.json'), 'w') as f:
        json.dump(m, f, indent=1)
    print('MANIFEST.json written:', len(checks), 'checks')


if __name__ == '__main__':
    main()
