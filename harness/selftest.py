"""./check selftest -- binding demo: a recorded trace of the real code is corrupted in one field at a time and TLC
must reject exactly that; with a tap removed the dependent implementation-level clause is skipped and nothing else
changes.  Shows that the trace specification constrains the traces (no vacuous acceptance)."""
import copy
import json

from . import framework as fw
from . import tlc, randscenes
from .props import c14


def main():
    rows, prms = c14.scene_rows('mergesplit')
    desc = {'family': 'selftest', 'name': 'selftest', 'rows': rows, 'prms': prms, 'indomain': True}
    traces, _ = fw.run_scenarios([desc])
    base = fw.strip(traces[0])
    variants = [('unchanged', base, set())]

    def mut(name, fn, expect):
        t = copy.deepcopy(base)
        fn(t)
        variants.append((name, t, expect))
    ev = {e['op'] + ':' + e['arg']: i for i, e in enumerate(base['events'])}
    fl = ev['find_layers:']
    mut('one layer id altered', lambda t: t['events'][fl]['ids']['l'].__setitem__(0, t['events'][fl]['ids']['l'][-1]), {'C05_'})
    mut('okta of a layer altered', lambda t: t['events'][fl]['tbl']['layers'][0].__setitem__('okta', 3), {'C03_Okta'})
    mut('base of a layer raised by 1 ft', lambda t: t['events'][fl]['tbl']['layers'][0]['b'].__setitem__('v', t['events'][fl]['tbl']['layers'][0]['b']['v'] + 100), {'C04_Base'})
    mut('hit count of a group altered', lambda t: t['events'][ev['find_groups:']]['tbl']['groups'][0].__setitem__('n', 7), {'C03_Count'})
    mut('one message character altered', lambda t: t['events'][ev['metar_msg:layers']]['msg'].__setitem__(0, 88), {'C01_Grammar'})
    mut('first group of the message dropped', lambda t: t['events'][ev['metar_msg:layers']].__setitem__('msg', t['events'][ev['metar_msg:layers']]['msg'][7:]), {'C02_First'})
    mut('a hit height altered in chunk.data', lambda t: t['events'][0]['data'][3].__setitem__('h', 1234), {'C05_NoHitAltered'})
    mut('significant flag flipped', lambda t: t['events'][fl]['tbl']['layers'][1].__setitem__('sig', not t['events'][fl]['tbl']['layers'][1]['sig']), {'C17_Rule'})
    mut('clustering tap altered (implementation level only)', lambda t: t['events'][ev['find_slices:']]['taps']['clu'][0].__setitem__(0, 1 - t['events'][ev['find_slices:']]['taps']['clu'][0][0]), {'I_'})
    mut('mixture tap removed', lambda t: t['events'][fl]['taps'].__setitem__('gmm', []), set())
    for i, (n, t, e) in enumerate(variants):
        t['tid'] = i + 1
    verdicts, _ = tlc.validate_traces([v[1] for v in variants], shards=4)
    ok = True
    print(f'{"variant":50s} expected   failing clauses')
    for i, (name, t, expect) in enumerate(variants):
        fails = sorted({c for _, f, _ in verdicts[i + 1] for c in f})
        good = (not fails) if not expect else all(any(c.startswith(p) for c in fails) for p in expect)
        if name == 'clustering tap altered (implementation level only)':
            good = good and not any(c.startswith('C') for c in fails)
        ok &= good
        print(f'{name:50s} {",".join(sorted(expect)) or "-":10s} {fails} {"ok" if good else "UNEXPECTED"}')
    print('selftest', 'ok' if ok else 'FAILED')
    return 0 if ok else 2
