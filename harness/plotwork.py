"""Worker side of C20: sessions of diagnostic plots over classes of processed chunks, one process each."""
import os
import copy
import zlib
import json
import glob
import random
import shutil
import tempfile
import warnings
import hashlib

os.environ['MPLBACKEND'] = 'Agg'
from . import tracer   # noqa: E402
from . import randscenes  # noqa: E402
from .sessionwork import frame_bytes  # noqa: E402

import numpy as np  # noqa: E402

CLASSES = ['nohits', 'singlehit', 'onerow', 'zerookta', 'vvonly', 'manylayers', 'manyslices', 'emptycrop', 'mid', 'msa', 'twoceilos_vv', 'tiny']


def class_scene(cls, rng):
    prms = {}
    if cls == 'nohits':
        rows = [[c, -15.0 * i, None, 0] for i in range(6) for c in ('a', 'b')]
    elif cls == 'singlehit':
        rows = [['a', -15.0 * i, None, 0] for i in range(1, 5)] + [['a', 0.0, 1500, 1]]
    elif cls == 'onerow':
        rows = [['a', 0.0, 1000, 1]]
    elif cls == 'zerookta':
        rows = [['a', -15.0 * i, 1000 if i < 2 else None, 1 if i < 2 else 0] for i in range(20)]
        prms = {'MAX_HITS_OKTA0': 3}
    elif cls == 'vvonly':
        rows = [['a', -15.0 * i, rng.choice([100, 200, 300]), -1] for i in range(25)]
    elif cls == 'manylayers':
        rows = [['a', -15.0 * i, 500 + 1500 * k, k + 1] for i in range(12) for k in range(10)]
        prms = {'SLICING_PRMS': {'distance_threshold': 0.02}, 'MAX_HITS_OKTA0': 0}
    elif cls == 'manyslices':
        rows = [['a', -15.0 * i, 300 + 700 * i, 1] for i in range(14)] + [['b', -15.0 * i, 400 + 700 * i, 1] for i in range(14)]
        prms = {'SLICING_PRMS': {'distance_threshold': 0.01}}
    elif cls == 'emptycrop':
        rows = [['a', -15.0 * i, 5000 + 100 * i, 2] for i in range(3)]
        prms = {'MSA': 1000}
    elif cls == 'mid':
        d = randscenes.rand_scene(rng, 'mid')
        return d['rows'], d['prms']
    elif cls == 'msa':
        d = randscenes.rand_scene(rng, 'tiny')
        d['prms']['MSA'] = 2000
        return d['rows'], d['prms']
    elif cls == 'twoceilos_vv':
        rows = [['a', -15.0 * i, 1000 + 10 * i, 1] for i in range(10)] + [['b', -15.0 * i, 200, -1] for i in range(10)]
    else:
        d = randscenes.rand_scene(rng, 'tiny')
        return d['rows'], d['prms']
    return rows, prms


def chunk_digest(ch):
    h = hashlib.sha256()
    h.update(frame_bytes(ch.data))
    for w in ('slices', 'groups', 'layers'):
        tb = getattr(ch, w)
        if tb is not None:
            h.update(frame_bytes(tb))
            h.update(ch.metar_msg(w).encode())
    h.update(json.dumps(ch.prms, sort_keys=True, default=str).encode())
    return int(h.hexdigest()[:7], 16)


def rc_digest():
    import matplotlib as mpl
    return zlib.crc32(json.dumps({k: str(v) for k, v in mpl.rcParams.items()}, sort_keys=True).encode()) & 0x3fffffff


def plot_session(sess):
    import ampycloud
    import matplotlib as mpl
    import matplotlib.pyplot as plt
    from ampycloud import dynamic
    from ampycloud.plots import diagnostic
    ampycloud.reset_prms()
    rng = random.Random(sess['seed'])
    tmp = tempfile.mkdtemp(prefix='verif_plot_')
    cwd0 = os.getcwd()
    os.chdir(tmp)                       # anything written with a relative path lands here and is noticed
    events = []
    try:
        for k, a in enumerate(sess['calls']):
            rows, prms = class_scene(a['cls'], random.Random(f"{sess['seed']}:{a['cls']}:{a.get('var', 0)}"))
            # the global dictionary at processing time and at plotting time need not be the same one: a chunk plots with what it
            # was processed with ('run': step scaling of the heights set globally for the run only; 'plot': set globally for the
            # plot only, together with other values that must not reach the figure)
            gl = a.get('glob')
            step = {'height_scale_mode': 'step-scale', 'height_scale_kwargs': {'steps': [3000, 8000], 'scales': [100, 500, 1000]}}
            if gl == 'run':
                dynamic.AMPYCLOUD_PRMS['SLICING_PRMS'].update(copy.deepcopy(step))
            with warnings.catch_warnings():
                warnings.simplefilter('ignore')
                ch = ampycloud.run(tracer.build_frame({'rows': rows}), prms=prms or None, geoloc='verif', ref_dt='2026-01-01')
            if gl == 'run':
                ampycloud.reset_prms()
            elif gl == 'plot':
                dynamic.AMPYCLOUD_PRMS['SLICING_PRMS'].update(copy.deepcopy(step))
                dynamic.AMPYCLOUD_PRMS['MSA'] = 100
                dynamic.AMPYCLOUD_PRMS['MAX_HITS_OKTA0'] = 50
                dynamic.AMPYCLOUD_PRMS['GROUPING_PRMS']['height_pad_perc'] = 300
            sname = f'plot_{k}' + a.get('stemsuffix', '')
            stem = os.path.join(tmp, sname) if a['save'] else None
            fmts = a['fmts']
            rc0 = dict(mpl.rcParams)
            e = {'cls': a['cls'], 'upto': a['upto'], 'show': bool(a['show']), 'show_ceilos': bool(a['show_ceilos']), 'hasref': a['ref'] is not None,
                 'hasstem': stem is not None, 'fmts': list(fmts) if isinstance(fmts, list) else ([fmts] if fmts else ['pdf']),
                 'chunk_before': chunk_digest(ch), 'rc_before': rc_digest(), 'g_before': zlib.crc32(json.dumps(dynamic.AMPYCLOUD_PRMS, sort_keys=True, default=str).encode()) & 0x3fffffff,
                 'figs_before': len(plt.get_fignums()), 'exc': ''}
            before = set(glob.glob(os.path.join(tmp, '*')))
            try:
                with warnings.catch_warnings():
                    warnings.simplefilter('ignore')
                    diagnostic(ch, upto=a['upto'], show_ceilos=a['show_ceilos'], ref_metar=a['ref'], ref_metar_origin=a['origin'],
                               show=a['show'], save_stem=stem, save_fmts=fmts)
            except Exception as ex:
                e['exc'] = type(ex).__name__ + ': ' + str(ex)[:100]
            after = set(glob.glob(os.path.join(tmp, '*')))
            new = sorted(after - before)
            mine = [f for f in new if stem and os.path.basename(f).startswith(sname + '.') and '.' not in os.path.basename(f)[len(sname) + 1:]]
            e['newfiles'] = [os.path.basename(f)[len(sname) + 1:] for f in mine]
            e['otherfiles'] = len([f for f in new if f not in mine])
            e['chunk_after'] = chunk_digest(ch)
            e['rc_after'] = rc_digest()
            e['rc_changed'] = sum(1 for kk in rc0 if str(rc0[kk]) != str(mpl.rcParams[kk]))
            e['g_after'] = zlib.crc32(json.dumps(dynamic.AMPYCLOUD_PRMS, sort_keys=True, default=str).encode()) & 0x3fffffff
            e['figs_after'] = len(plt.get_fignums())
            if a['show']:
                plt.close('all')
            if gl:
                ampycloud.reset_prms()
            e['glob'] = gl or 'none'
            events.append(e)
    finally:
        os.chdir(cwd0)
        shutil.rmtree(tmp, ignore_errors=True)
        ampycloud.reset_prms()
    return {'name': sess['name'], 'events': events}
