"""Scenario families.  Descriptors are enumerated by TLC (spec/Scenes.tla, spec/MC_Chunk.tla) and
concretised here into input tables + parameters for the real code.  Heights are integer feet."""
import os
import json
import random
import shutil
import tempfile

from . import tlc
from .framework import Machinery

DT = 15.0


def export(what, tier, module='ExportScenes', cfg='', extra_env=None, timeout=1800):
    """ let TLC enumerate a scenario family and hand it over as JSON """
    tmp = tempfile.mkdtemp(prefix='verif_scn_')
    try:
        env = {'WHAT': what, 'OUT_DIR': tmp, 'TIER': tier}
        if extra_env:
            env.update(extra_env)
        r = tlc.run_tlc(module, cfg, env=env, workers=1, timeout=timeout)
        if r['error'] or r['violated']:
            raise Machinery('scenario export failed: ' + str(r['error'] or r['violated']))
        out = {}
        for fn in os.listdir(tmp):
            if fn.endswith('.json'):
                with open(os.path.join(tmp, fn)) as f:
                    out[fn[:-5]] = json.load(f)
        return out
    finally:
        shutil.rmtree(tmp, ignore_errors=True)


def stratified(items, key, limit, rng):
    """ deterministic sample of at most `limit` items covering every stratum """
    if limit is None or len(items) <= limit:
        return list(items)
    groups = {}
    for it in items:
        groups.setdefault(key(it), []).append(it)
    for g in groups.values():
        rng.shuffle(g)
    out = []
    keys = sorted(groups, key=str)
    while len(out) < limit and keys:
        for k in list(keys):
            if groups[k]:
                out.append(groups[k].pop())
                if len(out) >= limit:
                    break
            else:
                keys.remove(k)
    return out


# ------------------------------------------------------------------------------------------------
# F2: abstract layer tables -> flat, well separated layers
# ------------------------------------------------------------------------------------------------
F2_M = 16            # measurements: one ceilometer, 16 time steps; okta o <-> 2*o hits
F2_H0 = 1000
F2_STEP = 1500


def layer_table_desc(tab, hc, idx, which_ops=True):
    oktas = tab['oktas']
    h0 = hc['h0']
    msa = tab['msa']
    heights = [F2_H0 + F2_STEP * i for i in range(len(oktas))]
    meas = [[] for _ in range(F2_M)]          # heights per measurement
    intended = []
    for i, o in enumerate(oktas):
        if o == 0:
            if h0 == 0:
                continue                       # a zero-okta layer needs MAX_HITS_OKTA0 >= 1
            n = 1
        else:
            n = 2 * o
            if n <= h0:
                continue
        intended.append(o)
        start = (3 * i + idx) % F2_M
        for j in range(n):
            meas[(start + j) % F2_M].append(heights[i])
    prms = {'MAX_HITS_OKTA0': h0, 'MAX_HOLES_OKTA8': 0, 'MSA_HIT_BUFFER': 20000}
    top = heights[-1] if heights else F2_H0
    if msa['kind'] == 'none':
        prms['MSA'] = None
        nhigh = 0
    else:
        if msa['kind'] == 'below':
            prms['MSA'] = 500
        elif msa['kind'] == 'at':
            prms['MSA'] = heights[msa['i'] - 1]
        else:
            prms['MSA'] = heights[msa['i'] - 1] + 700
        nhigh = {'zero': 0, 'h0': h0, 'h0p1': h0 + 1}[hc['high']]
    # hits above MSA + buffer (never part of a table)
    for j in range(nhigh):
        meas[(5 * j + idx) % F2_M].append(prms['MSA'] + 20000 + 1000 + 100 * j)
    rows = []
    for t in range(F2_M):
        dt = -DT * (F2_M - 1 - t)
        hs = sorted(meas[t])
        if not hs:
            rows.append(['a', dt, None, 0])
        for k, h in enumerate(hs):
            rows.append(['a', dt, h, k + 1])
    return {'family': 'F2', 'name': f'F2:{oktas}:{msa["kind"]}{msa["i"]}:h0={h0}:{hc["high"]}', 'rows': rows,
            'prms': prms, 'indomain': True, 'intended_oktas': intended, 'abstract': {'tab': tab, 'hc': hc}}


def layer_table_descs(tier, seed, limit):
    ex = export('layer_tables', tier)
    tabs, hcs = ex['layer_tables'], ex['high_classes']
    rng = random.Random(seed)
    if limit is not None and len(tabs) > limit:
        # every okta sequence once without an MSA (the selection rule is a function of the sequence), the other MSA positions sampled
        plain = [t for t in tabs if t['msa']['kind'] == 'none']
        others = [t for t in tabs if t['msa']['kind'] != 'none']
        tabs = plain + stratified(others, lambda t: (len(t['oktas']), t['msa']['kind'], t['msa']['i'], tuple(sorted(set(t['oktas'])))), limit, rng)
    hcs = sorted(hcs, key=lambda h: (h['h0'], h['high']))
    descs = []
    for i, t in enumerate(tabs):
        hc = hcs[(i + seed) % len(hcs)]
        if t['msa']['kind'] == 'none':
            hc = {'h0': hc['h0'], 'high': 'zero'}
        descs.append(layer_table_desc(t, hc, i))
    return descs, len(ex['layer_tables'])


def realised_f2(trace):
    """ did the real pipeline produce the intended abstract table ? """
    evs = [e for e in trace['events'] if e['op'] == 'find_layers' and e['res'] == 'ok']
    if not evs:
        return False
    got = [r['okta'] for r in evs[-1]['tbl']['layers']]
    return got == trace['_desc']['intended_oktas']


# ------------------------------------------------------------------------------------------------
# F1: the initial states of the model instance (small-world frames x parameter records)
# ------------------------------------------------------------------------------------------------
def prm_to_dict(p):
    """ parameter record of the specification -> per-call parameter dictionary """
    d = {'MSA': p['msa'] if p['hasmsa'] else None, 'MSA_HIT_BUFFER': p['buf'], 'MAX_HITS_OKTA0': p['h0'],
         'MAX_HOLES_OKTA8': p['h8'], 'BASE_LVL_HEIGHT_PERC': p['p'], 'BASE_LVL_LOOKBACK_PERC': p['lb'],
         'EXCLUDE_FOR_BASE_HEIGHT_CALC': list(p['excl']), 'MIN_SEP_VALS': list(p['sepv']),
         'MIN_SEP_LIMS': list(p['sepl']), 'LAYERING_PRMS': {'min_okta_to_split': p['minokta']}}
    return d


def model_frame_desc(raw, prm, name):
    rows = [[r['c'], -DT * (10 - r['t']), None if r['h'] <= -1000000 else r['h'], r['k']] for r in raw]
    return {'family': 'F1', 'name': name, 'rows': rows, 'prms': prm_to_dict(prm), 'indomain': True}


# ------------------------------------------------------------------------------------------------
# F7 (pipeline form): one flat layer, n hits out of m measurements
# ------------------------------------------------------------------------------------------------
def nm_desc(c):
    n, m, nce = c['n'], c['m'], c['nce']
    rows = []
    # m measurements spread over nce ceilometers (coincident time stamps when nce = 2)
    meas = []
    for j in range(m):
        ce = 'a' if (nce == 1 or j % 2 == 0) else 'b'
        t = j if nce == 1 else j // 2
        meas.append((ce, -DT * t))
    for j, (ce, dt) in enumerate(meas):
        if j < n:
            rows.append([ce, dt, 1000, 1])
            if c['dup']:
                rows.append([ce, dt, 1010, 2])
        else:
            rows.append([ce, dt, None, 0])
    return {'family': 'F7nm', 'name': f'nm:{n}/{m}:h0={c["h0"]}:h8={c["h8"]}:dup={c["dup"]}:nce={nce}', 'rows': rows,
            'prms': {'MAX_HITS_OKTA0': c['h0'], 'MAX_HOLES_OKTA8': c['h8']}, 'indomain': True, 'abstract': c}


def nm_descs(tier, seed, limit):
    cases = export('nm_cases', tier)['nm_cases']
    rng = random.Random(seed)
    sel = stratified(cases, lambda c: (c['m'], c['h0'], c['h8']), limit, rng)
    return [nm_desc(c) for c in sel], len(cases)


# ------------------------------------------------------------------------------------------------
# F3: band layouts (merging of close groups, look-back, exclusion)
# ------------------------------------------------------------------------------------------------
GAP_FT = {'lt': 180, 'eq': 250, 'gt': 320, 'far': 2000}
THICK_FT = {'flat': 0, 'thin': 30, 'thick': 120}


def band_desc(lay, idx, rng):
    nt = 12
    base0 = rng.choice([1000, 1000, 600, 9700, 9900])       # some layouts straddle the 10000 ft bin limit
    bases = [base0]
    for g in lay['gaps']:
        bases.append(bases[-1] + GAP_FT[g])
    meas = {}
    for bi, b in enumerate(bases):
        th = THICK_FT[lay['thick'][bi]]
        owners = list(lay['own'][bi])
        age = lay['age'][bi]
        ts = range(0, nt // 2) if age == 'old' else (range(nt // 2, nt) if age == 'new' else range(nt))
        for ce in owners:
            for t in ts:
                h = b + (rng.randint(0, th) if th else 0)
                meas.setdefault((ce, t), set()).add(h)
    rows = []
    for ce in ('a', 'b'):
        for t in range(nt):
            hs = sorted(meas.get((ce, t), ()))
            dt = -DT * (nt - 1 - t)
            if not hs:
                rows.append([ce, dt, None, 0])
            for k, h in enumerate(hs):
                rows.append([ce, dt, h, k + 1])
    order = ['asc', 'desc', 'shuf'][idx % 3]
    if order == 'desc':
        rows.reverse()
    elif order == 'shuf':
        rng.shuffle(rows)
    prms = {'BASE_LVL_HEIGHT_PERC': rng.choice([0, 5, 50, 95, 100]),
            'BASE_LVL_LOOKBACK_PERC': rng.choice([100, 70, 50, 30]),
            'EXCLUDE_FOR_BASE_HEIGHT_CALC': rng.choice([[], [], ['a'], ['b']]),
            'MAX_HITS_OKTA0': rng.choice([0, 2, 3]),
            'SLICING_PRMS': {'distance_threshold': rng.choice([0.02, 0.05, 0.2])}}
    if rng.random() < 0.3:
        prms['MIN_SEP_VALS'] = [250, 320, 1000]
        prms['MIN_SEP_LIMS'] = [1200, 10000]
    return {'family': 'F3', 'name': f'F3:{idx}:{"".join(g[0] for g in lay["gaps"])}:{order}', 'rows': rows, 'prms': prms,
            'indomain': True, 'abstract': lay}


def band_descs(tier, seed, limit):
    lays = export('band_layouts', tier)['band_layouts']
    rng = random.Random(seed)
    sel = stratified(lays, lambda l: (len(l['gaps']), tuple(l['gaps']), tuple(l['own'])), limit, rng)
    return [band_desc(l, i, random.Random(f'F3:{seed}:{i}')) for i, l in enumerate(sel)], len(lays)


# ------------------------------------------------------------------------------------------------
# F3b: one group of two or three levels (mixture model engaged, look-back, row order)
# ------------------------------------------------------------------------------------------------
def split_desc(lay, idx):
    rng = random.Random(f'F3b:{idx}:{lay["gap"]}:{lay["old"]}')
    nt = 40
    rows = []
    for i in range(nt):
        t = -DT * (nt - 1 - i)
        l1 = 1000 + (i % 3) * 5 - 5
        frac = i / (nt - 1)
        l2 = round(1000 + lay['gap'] + lay['old'] * (1 - frac))
        rows.append(['a', t, l1, 1])
        rows.append(['a', t, l2, 2])
        if lay['third']:
            rows.append(['a', t, l2 + 600 + (i % 2) * 4, 3])
    if lay['order'] == 'desc':
        rows.reverse()
    elif lay['order'] == 'shuf':
        rng.shuffle(rows)
    prms = {'BASE_LVL_LOOKBACK_PERC': lay['lb'], 'BASE_LVL_HEIGHT_PERC': lay['p']}
    return {'family': 'F3b', 'name': f'F3b:{lay["gap"]}:{lay["old"]}:{lay["third"]}:{lay["order"]}:lb{lay["lb"]}:p{lay["p"]}',
            'rows': rows, 'prms': prms, 'indomain': True, 'abstract': lay}


def split_descs(tier, seed, limit):
    lays = export('split_layouts', tier)['split_layouts']
    rng = random.Random(seed)
    sel = stratified(lays, lambda l: (l['gap'], l['old'], l['order'], l['lb']), limit, rng)
    return [split_desc(l, i) for i, l in enumerate(sel)], len(lays)


# ------------------------------------------------------------------------------------------------
# F1 export: initial states of the model instance
# ------------------------------------------------------------------------------------------------
def model_frames(cfg_text, prmset, tier, seed, limit):
    """ frames and parameter records of an MC_Chunk instance, crossed and sampled """
    ex = export('frames', tier, module='ExportFrames', cfg=cfg_text, extra_env={'PRMSET': prmset})
    frames, prms = ex['frames'], ex['prms']
    rng = random.Random(seed)
    total = len(frames) * len(prms)
    descs = []
    if limit is None or total <= limit:
        pairs = [(f, p) for f in frames for p in prms]
    else:
        pairs = [(frames[rng.randrange(len(frames))], prms[rng.randrange(len(prms))]) for _ in range(limit)]
    for i, (f, p) in enumerate(pairs):
        descs.append(model_frame_desc(f, p, f'F1:{i}'))
    return descs, total


# ------------------------------------------------------------------------------------------------
# F3c: base heights landing within a few hundredths of a foot of a coding boundary (spec: WMO!HCode)
# ------------------------------------------------------------------------------------------------
def boundary_descs(seed, n):
    """ two adjacent integer heights (k-1, k) or (k, k+1) around a coding boundary k and a percentile such that
    the interpolated base sits at k - 0.01 .. k - 0.06 or k + 0.01 .. (never exactly representable by rounding tricks) """
    out = []
    bounds = list(range(100, 10001, 100)) + list(range(11000, 100000, 1000))
    for i in range(n):
        rng = random.Random(f'F3c:{seed}:{i}')
        k = rng.choice(bounds)
        nh = rng.choice([2, 2, 3, 5])
        side = rng.choice(['below', 'below', 'above'])
        lo, hi = (k - 1, k) if side == 'below' else (k, k + 1)
        p = rng.choice([99, 98, 97, 96, 95, 94, 90, 50]) if side == 'below' else rng.choice([1, 2, 5, 50])
        rows = []
        for j in range(nh):
            rows.append(['a', -DT * (nh - 1 - j), hi if j == nh - 1 else lo, 1])
        for j in range(rng.randint(0, 3)):
            rows.append(['a', -DT * (nh + j), None, 0])
        out.append({'family': 'F3c', 'name': f'F3c:{k}:{side}:p{p}:n{nh}', 'rows': rows, 'indomain': True,
                    'prms': {'BASE_LVL_HEIGHT_PERC': p, 'MAX_HITS_OKTA0': 0, 'MAX_HOLES_OKTA8': 0}})
    return out


# ------------------------------------------------------------------------------------------------
# F3d: ties in the time order inside a group that splits (several ceilometers on a common time grid)
# ------------------------------------------------------------------------------------------------
def tiesplit_desc(lay, idx, seed):
    rng = random.Random(f'F3d:{seed}:{idx}')
    nce, nt = lay['nce'], rng.randint(10, 16)
    rows = []
    for c in range(nce):
        name = f'c{c}'
        for t in range(nt):
            dt = -DT * (nt - 1 - t)
            r = rng.random()
            if r < 0.08:
                rows.append([name, dt, None, 0])
                continue
            h1 = 1000 + rng.randint(-40, 40)
            h2 = 1000 + lay['gap'] + rng.randint(-40, 40)
            rows.append([name, dt, h1, 1])
            if h2 > h1:
                rows.append([name, dt, h2, 2])
            if c == 0 and t % 4 == 0:
                rows.append([name, dt, 6000 + rng.randint(0, 30), 3])       # a second, far group
    rng.shuffle(rows)
    prms = {'BASE_LVL_LOOKBACK_PERC': lay['lb'], 'BASE_LVL_HEIGHT_PERC': lay['p']}
    return {'family': 'F3d', 'name': f'F3d:{idx}:n{nce}:g{lay["gap"]}:lb{lay["lb"]}:p{lay["p"]}', 'rows': rows, 'prms': prms,
            'indomain': True, 'abstract': lay}


def tiesplit_descs(tier, seed, limit):
    lays = export('tiesplit_layouts', tier)['tiesplit_layouts']
    lays = sorted(lays, key=lambda l: (l['nce'], l['gap'], l['lb'], l['p']))
    out = []
    i = 0
    while len(out) < (limit or 4 * len(lays)):
        out.append(tiesplit_desc(lays[i % len(lays)], i, seed))
        i += 1
    return out, len(lays)
