"""Scenario families.  Descriptors are enumerated by TLC (spec/Scenes.tla, spec/MC_Chunk.tla) and
concretised here into input tables + parameters for the real code.  Heights are integer feet."""
import os
import json
import random
import shutil
import tempfile

from . import tlc
from .framework import Machinery

DT = 15.0


def export(what, tier, module='ExportScenes', cfg='', extra_env=None, timeout=1800):
    """ let TLC enumerate a scenario family and hand it over as JSON """
    tmp = tempfile.mkdtemp(prefix='verif_scn_')
    try:
        env = {'WHAT': what, 'OUT_DIR': tmp, 'TIER': tier}
        if extra_env:
            env.update(extra_env)
        r = tlc.run_tlc(module, cfg, env=env, workers=1, timeout=timeout)
        if r['error'] or r['violated']:
            raise Machinery('scenario export failed: ' + str(r['error'] or r['violated']))
        out = {}
        for fn in os.listdir(tmp):
            if fn.endswith('.json'):
                with open(os.path.join(tmp, fn)) as f:
                    out[fn[:-5]] = json.load(f)
        return out
    finally:
        shutil.rmtree(tmp, ignore_errors=True)


def stratified(items, key, limit, rng):
    """ deterministic sample of at most `limit` items covering every stratum """
    if limit is None or len(items) <= limit:
        return list(items)
    groups = {}
    for it in items:
        groups.setdefault(key(it), []).append(it)
    for g in groups.values():
        rng.shuffle(g)
    out = []
    keys = sorted(groups, key=str)
    while len(out) < limit and keys:
        for k in list(keys):
            if groups[k]:
                out.append(groups[k].pop())
                if len(out) >= limit:
                    break
            else:
                keys.remove(k)
    return out


# ------------------------------------------------------------------------------------------------
# F2: abstract layer tables -> flat, well separated layers
# ------------------------------------------------------------------------------------------------
F2_M = 16            # measurements: one ceilometer, 16 time steps; okta o <-> 2*o hits
F2_H0 = 1000
F2_STEP = 1500


def layer_table_desc(tab, hc, idx, which_ops=True):
    oktas = tab['oktas']
    h0 = hc['h0']
    msa = tab['msa']
    heights = [F2_H0 + F2_STEP * i for i in range(len(oktas))]
    meas = [[] for _ in range(F2_M)]          # heights per measurement
    intended = []
    for i, o in enumerate(oktas):
        if o == 0:
            if h0 == 0:
                continue                       # a zero-okta layer needs MAX_HITS_OKTA0 >= 1
            n = 1
        else:
            n = 2 * o
            if n <= h0:
                continue
        intended.append(o)
        start = (3 * i + idx) % F2_M
        for j in range(n):
            meas[(start + j) % F2_M].append(heights[i])
    prms = {'MAX_HITS_OKTA0': h0, 'MAX_HOLES_OKTA8': 0, 'MSA_HIT_BUFFER': 20000}
    top = heights[-1] if heights else F2_H0
    if msa['kind'] == 'none':
        prms['MSA'] = None
        nhigh = 0
    else:
        if msa['kind'] == 'below':
            prms['MSA'] = 500
        elif msa['kind'] == 'at':
            prms['MSA'] = heights[msa['i'] - 1]
        else:
            prms['MSA'] = heights[msa['i'] - 1] + 700
        nhigh = {'zero': 0, 'h0': h0, 'h0p1': h0 + 1}[hc['high']]
    # hits above MSA + buffer (never part of a table)
    for j in range(nhigh):
        meas[(5 * j + idx) % F2_M].append(prms['MSA'] + 20000 + 1000 + 100 * j)
    rows = []
    for t in range(F2_M):
        dt = -DT * (F2_M - 1 - t)
        hs = sorted(meas[t])
        if not hs:
            rows.append(['a', dt, None, 0])
        for k, h in enumerate(hs):
            rows.append(['a', dt, h, k + 1])
    return {'family': 'F2', 'name': f'F2:{oktas}:{msa["kind"]}{msa["i"]}:h0={h0}:{hc["high"]}', 'rows': rows,
            'prms': prms, 'indomain': True, 'intended_oktas': intended, 'abstract': {'tab': tab, 'hc': hc}}


def layer_table_descs(tier, seed, limit):
    ex = export('layer_tables', tier)
    tabs, hcs = ex['layer_tables'], ex['high_classes']
    rng = random.Random(seed)
    tabs = stratified(tabs, lambda t: (len(t['oktas']), t['msa']['kind'], tuple(sorted(set(t['oktas'])))), limit, rng)
    hcs = sorted(hcs, key=lambda h: (h['h0'], h['high']))
    descs = []
    for i, t in enumerate(tabs):
        hc = hcs[(i + seed) % len(hcs)]
        if t['msa']['kind'] == 'none':
            hc = {'h0': hc['h0'], 'high': 'zero'}
        descs.append(layer_table_desc(t, hc, i))
    return descs, len(ex['layer_tables'])


def realised_f2(trace):
    """ did the real pipeline produce the intended abstract table ? """
    evs = [e for e in trace['events'] if e['op'] == 'find_layers' and e['res'] == 'ok']
    if not evs:
        return False
    got = [r['okta'] for r in evs[-1]['tbl']['layers']]
    return got == trace['_desc']['intended_oktas']


# ------------------------------------------------------------------------------------------------
# F1: the initial states of the model instance (small-world frames x parameter records)
# ------------------------------------------------------------------------------------------------
def prm_to_dict(p):
    """ parameter record of the specification -> per-call parameter dictionary """
    d = {'MSA': p['msa'] if p['hasmsa'] else None, 'MSA_HIT_BUFFER': p['buf'], 'MAX_HITS_OKTA0': p['h0'],
         'MAX_HOLES_OKTA8': p['h8'], 'BASE_LVL_HEIGHT_PERC': p['p'], 'BASE_LVL_LOOKBACK_PERC': p['lb'],
         'EXCLUDE_FOR_BASE_HEIGHT_CALC': list(p['excl']), 'MIN_SEP_VALS': list(p['sepv']),
         'MIN_SEP_LIMS': list(p['sepl']), 'LAYERING_PRMS': {'min_okta_to_split': p['minokta']}}
    return d


def model_frame_desc(raw, prm, name):
    rows = [[r['c'], -DT * (10 - r['t']), None if r['h'] == -1 else r['h'], r['k']] for r in raw]
    return {'family': 'F1', 'name': name, 'rows': rows, 'prms': prm_to_dict(prm), 'indomain': True}
