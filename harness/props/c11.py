from . import paramprops


def run(out, tier, seed):
    return paramprops.run(out, tier, seed, 'C11')


def replay(path):
    return paramprops.replay('C11', path)
