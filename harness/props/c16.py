from . import pairprops


def run(out, tier, seed):
    return pairprops.run(out, tier, seed, 'C16')


def replay(path):
    return pairprops.replay('C16', path)
