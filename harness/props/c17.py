"""C17: significance flags implement the ICAO 1-3-5 rule for every okta sequence.
(A) ICAOAuto.tla: the fold and the declarative rule agree on the finite product automaton, hence for
sequences of any length; FnTables!C17_Model: fold = rule, prefix independence, one flag per layer on all
sequences up to the bound. (B) the real icao.significant_cloud is tabulated over ALL sequences up to the
bound (bit-packed) and TLC checks the table is complete and satisfies the declarative rule; long random
sequences and the `significant` column of pipeline traces are judged the same way."""
import json

from .. import framework as fw
from .. import fnjobs, randscenes, tlc

AUTO_CFG = '''SPECIFICATION Spec
INVARIANT Inv_Agree
INVARIANT Inv_State
INVARIANT Inv_ZeroNeverFlagged
PROPERTY Prop_AtMostThree
CHECK_DEADLOCK FALSE
'''


def decode(idx, n):
    return [(idx // 9 ** (n - 1 - i)) % 9 for i in range(n)]


def run(out, tier, seed):
    maxn = 5 if tier == 'quick' else 7
    mc = fw.mc_run('ICAOAuto', 'ICAOAuto', AUTO_CFG, coverage=True, workers=1)
    if mc['states'] < 10:
        raise fw.Machinery('ICAOAuto explored too few states')
    tabs = fw.pool_map('harness.fnwork', 'c17_table', list(range(maxn + 1)), chunksize=1)
    longs = fw.pool_map('harness.fnwork', 'c17_long', [(seed * 100 + i, 100 if tier == 'quick' else 1000) for i in range(8)], chunksize=1)
    long = [e for l in longs for e in l]
    jobs = []
    for n in range(maxn + 1):
        total = 9 ** n
        nsh = 1 if total < 20000 else min(32, total // 15000)
        for s in range(nsh):
            lo, hi = s * total // nsh, (s + 1) * total // nsh - 1
            # a shard needs its own rows and the rows of the prefixes (length n-1)
            jobs.append({'kind': 'c17', 'n': n, 'maxn': maxn, 'lo': lo, 'hi': hi, 'tab': tabs, 'long': long if (n == 0) else []})
    # keep job files small: every job carries the tables of length n and n-1 only
    for j in jobs:
        n = j['n']
        j['tab'] = [tabs[k] if k in (n, n - 1) else [0] * (9 ** k) for k in range(maxn + 1)] if n >= 5 else tabs[:6] + [[0] * (9 ** k) for k in range(6, maxn + 1)]
    results = fnjobs.run_jobs(jobs)
    nviol = 0
    for j, res in zip(jobs, results):
        for clause, keys in res.items():
            if not keys:
                continue
            if clause.startswith('C17_Model'):
                raise fw.Machinery(f'transcription fails its own property: {clause} {keys[:5]}')
            if clause.startswith('I_'):
                out.drift[clause] = out.drift.get(clause, 0) + len(keys)
                continue
            for k in keys[:3]:
                if clause == 'C17_Long':
                    payload = {'oktas': long[k - 1]['o'], 'flags': long[k - 1]['f'], 'clause': clause}
                elif clause == 'C17_Complete':
                    payload = {'clause': clause, 'lengths': [len(t) for t in tabs]}
                else:
                    payload = {'oktas': decode(k, j['n']), 'code': tabs[j['n']][k], 'clause': clause}
                out.violation(clause, 'okta_sequence', payload, json.dumps(payload)[:200])
            nviol += len(keys)
    # the significant column of pipeline traces
    traces, _ = fw.run_scenarios(randscenes.rand_scenes(seed + 170, 150 if tier == 'quick' else 1500, 'tiny', tag='C17'))
    verdicts, st = fw.judge_traces(out, traces, ['C17_'])
    total = sum(9 ** n for n in range(maxn + 1))
    nontriv = sum(1 for n in range(maxn + 1) for v in tabs[n] if bin(v).count('1') >= 3)   # at least two layers flagged
    out.samples = [{'oktas': decode(12345 % 9 ** 5, 5), 'code': tabs[5][12345 % 9 ** 5]}, long[0]]
    out.assumptions = ['okta values 0..8; flags packed as bits with a marker bit encoding the length of the returned list']
    cov = {'states': mc['states'] + 2 * len(jobs), 'transitions': mc['transitions'] + len(jobs), 'entries_judged_by_tlc': total + len(long), 'traces_validated_against_impl': len(traces) + total + len(long),
           'evaluations': total + len(long), 'distinct_nontrivial': nontriv,
           'rule': f'all okta sequences over 0..8 up to length {maxn} through the real function (exhaustive), {len(long)} random sequences of length 6..30; non-trivial = at least two layers flagged',
           'mc': [mc], 'tlc_jobs': len(jobs), 'exhaustive': True, 'checker_cmd': f'./check C17 --tier {tier}'}
    return out.finish('model_checking', cov)


def replay(path):
    rp = json.load(open(path))['payload']
    if 'oktas' not in rp:
        print('replay: nothing to re-run for', rp.get('clause'))
        return 2
    res = fw.pool_map('harness.fnwork', 'c17_one', [rp['oktas']])
    flags = res[0]
    job = {'kind': 'c17', 'n': 0, 'maxn': 0, 'lo': 0, 'hi': 0, 'tab': [[1]], 'long': [{'o': rp['oktas'], 'f': flags}]}
    r = fnjobs.run_jobs([job])[0]
    print('oktas', rp['oktas'], 'flags', flags, 'failing', {k: v for k, v in r.items() if v})
    if r.get('C17_Long'):
        print(f'VIOLATION property=C17 replay={path}')
        return 1
    return 0
