"""C18: WMO conversions (perc2okta, okta2code, height2code).
(A) TLC checks the transcriptions (WMO.tla) over the whole finite domain: monotone, 0 only for n=0,
8 only for n=m, nearest okta clipped to 1..7; height code monotone, three digits, never above the input.
(B) the real functions are tabulated over the same domain (all n/m*100 for 0<=n<=m<=M, scalar and array
calls; heights on a grid plus the floating-point neighbours of every coding boundary; okta2code on
-2..11 and on non-integers; out-of-range percentages) and TLC checks the recorded tables: complete, and
equal to the property-level characterisation (I_HalfEven: equal to the transcription)."""
import json

from .. import framework as fw
from .. import fnjobs


def ranges_by_weight(lo, hi, nsh, weight):
    tot = sum(weight(m) for m in range(lo, hi + 1))
    out, acc, start = [], 0, lo
    for m in range(lo, hi + 1):
        acc += weight(m)
        if acc >= tot / nsh and m < hi:
            out.append((start, m))
            start, acc = m + 1, 0
    out.append((start, hi))
    return out


def run(out, tier, seed):
    M = 300 if tier == 'quick' else 2000
    step = 7 if tier == 'quick' else 1
    # ---- percentages
    pr = ranges_by_weight(1, M, 16 if tier == 'quick' else 48, lambda m: m + 1)
    ptabs = fw.pool_map('harness.fnwork', 'c18_perc_rows', pr, chunksize=1)
    jobs = [{'kind': 'c18perc', 'lo': t['lo'], 'hi': t['hi'], 'rows': t['rows'], 'arr': t['arr'], 'arr2': t['arr2']} for t in ptabs]
    # ---- heights
    hr = [(a, min(a + 12499, 99999)) for a in range(0, 100000, 12500)]
    htabs = fw.pool_map('harness.fnwork', 'c18_heights', [(a, b, step) for a, b in hr], chunksize=1)
    for (a, b), t in zip(hr, htabs):
        nhs = len(range(a, b + 1, step))
        bounds = [k for k in range(a, b + 1) if k != 0 and ((k % 100 == 0 and k <= 10000) or (k % 1000 == 0 and k > 10000))]
        jobs.append({'kind': 'c18height', 'lo': a, 'hi': b, 'hs': t['hs'], 'nb': t['nb'], 'near': t['near'], 'nhs': nhs, 'nnb': 2 * len(bounds)})
    # ---- codes and refusals
    ctab = fw.pool_map('harness.fnwork', 'c18_codes', [0])[0]
    jobs.append(dict(kind='c18code', lo=0, hi=0, **ctab))
    results = fnjobs.run_jobs(jobs)
    for j, res in zip(jobs, results):
        for clause, keys in res.items():
            if not keys:
                continue
            if 'Model' in clause:
                raise fw.Machinery(f'transcription fails its own property: {clause} {keys[:5]}')
            if clause.startswith('I_'):
                out.drift[clause] = out.drift.get(clause, 0) + len(keys)
                continue
            for k in keys[:3]:
                payload = {'clause': clause, 'job': j['kind'], 'key': k}
                if j['kind'] == 'c18perc' and k >= 1:
                    payload['m'] = k
                    payload['row'] = j['rows'][k - j['lo']][:40]
                elif j['kind'] == 'c18height' and k >= 1:
                    src = j['nb'] if 'Neighbours' in clause else (j['near'] if 'NearBoundary' in clause else j['hs'])
                    payload['entry'] = src[k - 1] if k - 1 < len(src) else None
                elif j['kind'] == 'c18code' and k >= 1:
                    for fld, cl in (('oc', 'C18_Okta2Code'), ('ni', 'C18_NonIntegersRefused'), ('pr', 'C18_OutOfRangeRefused'), ('pa', 'C18_InRangeAccepted')):
                        if clause == cl:
                            payload['entry'] = j[fld][k - 1]
                out.violation(clause, 'function_table', payload, json.dumps(payload)[:240])
    npairs = sum(m + 1 for m in range(1, M + 1))
    nheights = sum(len(t['hs']) for t in htabs)
    nnb = sum(len(t['nb']) for t in htabs)
    ties = sum(1 for m in range(1, M + 1) for n in range(1, m) if (16 * n) % m == 0 and ((16 * n) // m) % 2 == 1 and m <= 8 * n <= 7 * m)
    out.samples = [{'m': 16, 'oktas': ptabs[0]['rows'][16 - ptabs[0]['lo']] if ptabs[0]['lo'] <= 16 <= ptabs[0]['hi'] else None},
                   htabs[0]['nb'][:2], ctab['oc'][:4]]
    out.assumptions = ['Python bool and numpy integer scalars are left out of the okta2code refusal clause (the property speaks of integers and non-integers)',
                       'float behaviour is covered on the lattice n/m*100 and at the immediate floating-point neighbours of coding boundaries only']
    cov = {'states': 2 * len(jobs), 'transitions': len(jobs), 'entries_judged_by_tlc': npairs + nheights + nnb, 'traces_validated_against_impl': npairs + nheights + nnb + len(ctab['oc']),
           'evaluations': npairs + nheights + nnb + len(ctab['oc']) + len(ctab['ni']) + len(ctab['pr']) + len(ctab['pa']),
           'distinct_nontrivial': ties + nnb,
           'rule': f'all (n, m) with m <= {M} through perc2okta (scalar and array), heights every {step} ft in [0, 100000) plus both float neighbours of every coding boundary, '
                   'okta2code on -2..11 and 8 non-integers, 8 out-of-range and 6 in-range percentages; non-trivial = exact rounding ties (8n/m = k + 1/2) and boundary neighbours',
           'tlc_jobs': len(jobs), 'exhaustive': True, 'checker_cmd': f'./check C18 --tier {tier}',
           'model_domain': f'Perc2Okta for all 0 <= n <= m <= {M}; HCode on every integer foot of [0, 100000)'}
    return out.finish('model_checking', cov)


def replay(path):
    rp = json.load(open(path))['payload']
    print('replay of a function-table entry: re-running the whole quick table for', rp.get('clause'))
    out = fw.Outcome('C18', 'quick', 0)
    return run(out, 'quick', 0)
