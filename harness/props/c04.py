from . import chunkprops


def run(out, tier, seed):
    return chunkprops.run_plan(out, tier, seed, 'C04')


def replay(path):
    return chunkprops.replay('C04', path)
