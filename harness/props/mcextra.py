"""Model-checking instances that are not configurations of MC_Chunk."""
from .. import framework as fw


def layerids_cfg(fixed, pool, maxg):
    return ('SPECIFICATION Spec\nCONSTANTS\n FixedIds = %s\n IdPool = {%s}\n MaxGroups = %d\n'
            'INVARIANT Inv_LayerInOneGroup\nINVARIANT Inv_NcompCount\n' % ('TRUE' if fixed else 'FALSE', ', '.join(map(str, pool)), maxg))


def run(name, tier):
    if name == 'MC_LayerIds':
        pool = [0, 1, 2, 99, 100, 101, 102, 110, 111, 112, 120, 121, 122, 130]
        if tier == 'quick':
            good = fw.mc_run('layerids', 'LayerIds', layerids_cfg(True, pool, 2))
        else:
            good = fw.mc_run('layerids', 'LayerIds', layerids_cfg(True, pool, 3))
        # sensitivity: the pinned id scheme (offset 100) must be rejected by the same instance
        bad = fw.mc_run('layerids-pinned', 'LayerIds', layerids_cfg(False, pool, 2), expect_violation='Inv_LayerInOneGroup')
        good['sensitivity'] = {'pinned_variant_violates': bad['violated']}
        return good
    if name == 'MC_Merge':
        cfg = ('SPECIFICATION Spec\nCONSTANTS\n Heights = {%s}\n MaxHits = %d\n PrmSet <- MergePrms\n'
               'INVARIANT Inv_TableTracksGroups\nINVARIANT Inv_BasesCurrent\nINVARIANT Inv_ExitSeparated\n'
               'PROPERTY Prop_Shrinks\nPROPERTY Prop_Terminates\nCHECK_DEADLOCK FALSE\n')
        if tier == 'quick':
            return fw.mc_run('merge-loop', 'MC_Merge', cfg % ('1000, 1200, 1250, 1450, 1600', 4))
        return fw.mc_run('merge-loop', 'MC_Merge', cfg % ('1000, 1200, 1250, 1450, 1600, 1700', 5))
    raise fw.Machinery('unknown MC instance ' + name)
