from . import pairprops


def run(out, tier, seed):
    return pairprops.run(out, tier, seed, 'C10')


def replay(path):
    return pairprops.replay('C10', path)
