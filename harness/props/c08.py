"""C08: valid input never crashes the chain; failures are AmpycloudError only.
Exploration guided and judged by the specification: degenerate and boundary scene kinds (several derived
from the model's named implementation choices, e.g. FirstMatchingBundleOnly -> a bundle of one hit,
cropping -> an empty chunk) crossed with parameter sets in which every leaf keeps its documented
meaning, executed through ampycloud.run() + metar_msg(); TLC judges every recorded step (C08_Total,
C08_OnlyAmpycloudError, C08_ReturnsString, message grammar) and, for integer scenes, all table clauses.
Totality of the third-party numerics cannot be model-checked: the level claimed is exploration."""
import os
import csv
import glob
import json
import random

from .. import framework as fw
from .. import randscenes, scenes, mcconf
from . import chunkprops

RUN_OPS = [['run_api', ''], ['metar_msg', 'layers'], ['metar_msg', 'groups'], ['metar_msg', 'slices']]
KINDS = ['spike', 'single_hit', 'only_nan', 'vv_only', 'types_gt3', 'extreme_heights', 'subsecond', 'daylong', 'coincident', 'dup_labels',
         'all_high_type2', 'one_hit_bundle', 'two_values', 'identical', 'type0_with_height', 'type1_nan', 'missing_lower_types',
         'one_row', 'many_ceilos', 'random_tiny', 'random_mid', 'fractional', 'negative']


def rich_prms(rng, ceilos):
    p = randscenes.rand_prms(rng, ceilos, [500, 1000, 3000])
    if rng.random() < 0.6:
        p['SLICING_PRMS'] = {'distance_threshold': rng.choice([0.006, 0.02, 0.1, 0.2, 0.5, 1, 2]), 'dt_scale': rng.choice([1, 100, 1000, 100000])}
        if rng.random() < 0.4:
            p['SLICING_PRMS']['height_scale_kwargs'] = {'min_range': rng.choice([1, 100, 1000, 5000])}      # a positive scale (min_range = 0 with a zero span is outside the domain)
    if rng.random() < 0.6:
        p['GROUPING_PRMS'] = {'height_pad_perc': rng.choice([0, 10, 50, 200]), 'dt_scale': rng.choice([1, 60, 180, 10000]),
                              'height_scale_range': rng.choice([[100, 500], [1, 1], [50, 5000], [100, 100]])}
    if rng.random() < 0.6:
        lp = p.setdefault('LAYERING_PRMS', {})
        lp['gmm_kwargs'] = {'scores': rng.choice(['BIC', 'AIC']), 'mode': rng.choice(['delta', 'prob']),
                            'min_prob': rng.choice([0.5, 0.9, 1.0]), 'delta_mul_gain': rng.choice([0.5, 0.95, 1.0]),
                            'rescale_0_to_x': rng.choice([None, 1, 100, 1000])}
        lp['min_okta_to_split'] = rng.choice([0, 1, 2, 8, 9])
    if rng.random() < 0.4:
        p['LOWESS'] = {'frac': rng.choice([0.05, 0.35, 0.7, 1.0]), 'it': rng.choice([0, 1, 3])}
    if rng.random() < 0.2:
        p['MPL_STYLE'] = rng.choice(['base', 'latex', 'metsymb'])
    return p


def scene(kind, rng, name):
    d = {'family': 'F1deg', 'name': name, 'indomain': True, 'ops': RUN_OPS}
    ce = ['a', 'b']
    if kind == 'spike':
        # many hits at exactly one height plus a few tens of quantised hits scattered around it: the territory of issue #119
        # (a mixture component left without any hit)
        m = rng.randint(25, 45)
        H = rng.choice([1000, 1000, 3000])
        q = rng.choice([10, 10, 20])
        scat = sorted(H + q * int(round(rng.gauss(0, rng.choice([4, 5, 7])))) for _ in range(m))
        scat = [h for h in scat if h != H and h >= 0] or [H + q]
        if rng.random() < 0.25:
            rng.shuffle(scat)
        step = rng.choice([4, 4, 3, 5])
        n_hits = step * len(scat) + rng.randint(5, 40)
        hs = [H] * n_hits
        for i, v in enumerate(scat):
            hs[step * i + 1] = v
        rows = [['a', -5.0 * (n_hits - 1 - i), hs[i], 1] for i in range(n_hits)]
    elif kind == 'single_hit':
        rows = [['a', -15.0 * i, None, 0] for i in range(rng.randint(0, 6))] + [['a', 5.0, rng.choice([0, 1, 500, 99999]), 1]]
    elif kind == 'only_nan':
        rows = [[rng.choice(ce), -15.0 * i, None, 0] for i in range(rng.randint(1, 12))]
        rows = [list(x) for x in {tuple(r) for r in rows}]
    elif kind == 'vv_only':
        rows = [['a', -15.0 * i, rng.choice([100, 200, 300]), -1] for i in range(rng.randint(1, 40))]
    elif kind == 'types_gt3':
        rows = []
        for i in range(rng.randint(2, 12)):
            for k in range(1, rng.randint(2, 7)):
                rows.append(['a', -15.0 * i, 500 * k + rng.randint(0, 30), k])
    elif kind == 'extreme_heights':
        rows = [['a', -15.0 * i, rng.choice([0, 0, 1, 99998, 99999, 50000]), 1] for i in range(rng.randint(2, 35))]
    elif kind == 'subsecond':
        rows = [['a', -0.001 * i, 1000 + rng.randint(0, 50), 1] for i in range(rng.randint(2, 40))]
    elif kind == 'daylong':
        rows = [['a', -3600.0 * i, 1000 + rng.randint(0, 500), 1] for i in range(rng.randint(2, 30))]
    elif kind == 'coincident':
        rows = [[c, -15.0 * i, 1000 + rng.randint(0, 5), 1] for i in range(rng.randint(2, 20)) for c in ('a', 'b', 'c')]
    elif kind == 'dup_labels':
        base = randscenes.rand_scene(rng, 'tiny')
        rows = base['rows']
        d['index'] = rng.choice(['perceilo', 'const', 'str'])
    elif kind == 'all_high_type2':
        rows = [['a', -15.0 * i, 5000 + 100 * i, rng.choice([2, 3])] for i in range(rng.randint(1, 5))]
        d['force'] = {'MSA': rng.choice([0, 1000]), 'MSA_HIT_BUFFER': rng.choice([0, 1500])}
    elif kind == 'one_hit_bundle':
        n = rng.randint(30, 45)
        rows = [['a', -2000.0, 800, 1], ['a', -1000.0, 900, 1]] + [['a', -40.0 + i, round(1000 + 500.0 * i / n), 1] for i in range(n)]
        d['force'] = {'SLICING_PRMS': {'dt_scale': 100, 'distance_threshold': 1}, 'GROUPING_PRMS': {'height_pad_perc': 50}}
    elif kind == 'two_values':
        rows = [['a', -15.0 * i, rng.choice([1000, 1300]), 1] for i in range(rng.randint(2, 60))]
    elif kind == 'identical':
        rows = [[c, -15.0 * i, 1234, 1] for i in range(rng.randint(1, 45)) for c in ce[:rng.randint(1, 2)]]
    elif kind == 'type0_with_height':
        rows = [['a', -15.0 * i, rng.choice([None, 800, 900]), 0] for i in range(rng.randint(2, 20))]
    elif kind == 'type1_nan':
        rows = [['a', -15.0 * i, rng.choice([None, 800]), 1] for i in range(rng.randint(2, 20))]
    elif kind == 'missing_lower_types':
        rows = [['a', -15.0 * i, 1000 * k + 10 * i, k] for i in range(rng.randint(2, 20)) for k in rng.sample([1, 2, 3, 4], 2)]
    elif kind == 'one_row':
        rows = [['a', 0.0, rng.choice([None, 1000]), rng.choice([0, 1])]]
        if rows[0][2] is None:
            rows[0][3] = 0
    elif kind == 'many_ceilos':
        rows = [[f'c{j}', -15.0 * i, 1000 + 37 * j + rng.randint(0, 10), 1] for i in range(rng.randint(1, 6)) for j in range(rng.randint(4, 9))]
    elif kind == 'random_tiny':
        return dict(randscenes.rand_scene(rng, 'tiny', name=name), ops=RUN_OPS, family='F1deg')
    elif kind == 'random_mid':
        return dict(randscenes.rand_scene(rng, 'mid', name=name), ops=RUN_OPS, family='F1deg')
    elif kind == 'fractional':
        base = randscenes.rand_scene(rng, 'tiny')
        rows = [[r[0], r[1] + rng.random(), None if r[2] is None else r[2] + rng.random(), r[3]] for r in base['rows']]
        d['light'] = True
    elif kind == 'negative':
        rows = [['a', -15.0 * i, rng.choice([-100, -1, 0, 50, 300]), 1] for i in range(rng.randint(2, 30))]
        d['light'] = True
        d['grammar'] = False          # C01 speaks about heights in [0, 100000)
    else:
        raise ValueError(kind)
    # no duplicated rows
    seen, out = set(), []
    for r in rows:
        if tuple(r) not in seen:
            seen.add(tuple(r))
            out.append(r)
    d['rows'] = out
    cs = sorted({r[0] for r in out})
    d['prms'] = rich_prms(rng, cs)
    for k, v in (d.pop('force', {}) or {}).items():
        d['prms'][k] = v
    if rng.random() < 0.15 and not d.get('light'):
        d['light'] = True
        d['prms']['MSA'] = rng.choice([999.5, 2000.25])           # a non-integer MSA is a valid parameter value
    return d


def ref_scenes():
    """ every input used by the repository's own scientific-stability tests """
    out = []
    repo = os.environ.get('VERIF_REPO', '/repo')
    for f in sorted(glob.glob(os.path.join(repo, 'test', 'ampycloud', 'ref_data', '*.csv'))):
        rows = []
        with open(f) as fh:
            for r in csv.DictReader(fh):
                h = r['height']
                rows.append([r['ceilo'], float(r['dt']), None if h in ('', 'nan', 'NaN') else float(h), int(float(r['type']))])
        msa = 10000 if 'MSA10000' in f else None
        out.append({'family': 'F4ref', 'name': 'ref:' + os.path.basename(f)[:40], 'rows': rows, 'prms': {'MSA': msa} if msa else {},
                    'indomain': True, 'ops': RUN_OPS, 'light': any(r[2] is not None and r[2] != round(r[2]) for r in rows)})
    return out


def run(out, tier, seed):
    n = 1600 if tier == 'quick' else 30000
    descs = []
    for i in range(n):
        rng = random.Random(f'C08:{seed}:{i}')
        kind = KINDS[i % len(KINDS)]
        descs.append(scene(kind, rng, f'{kind}:{seed}:{i}'))
    # issue #119 territory needs many tries: a dedicated batch with default parameters, judged for totality only
    for i in range(640 if tier == 'quick' else 8000):
        d = scene('spike', random.Random(f'C08spike:{seed}:{i}'), f'spikes:{seed}:{i}')
        d['prms'] = {} if i % 4 else {'LAYERING_PRMS': {'gmm_kwargs': {'scores': 'AIC'}}}
        d['light'] = True
        descs.append(d)
    # "the documented input format, including the anomalies documented as warnings only": dtypes that are coerced with a warning,
    # columns of the caller's own, permuted columns
    from .. import pairs as _pairs
    for i, d in enumerate(descs):
        if i % 4 == 0 and 'layout' not in d:
            d['layout'] = _pairs.LAYOUTS[(i // 4) % len(_pairs.LAYOUTS)]
    descs += ref_scenes()
    # the scene on which the thorough tier found the negative-score defect (known_findings.json, dfece3c), and variants of it
    import os as _os
    neg = json.load(open(_os.path.join(_os.path.dirname(_os.path.dirname(_os.path.dirname(_os.path.abspath(__file__)))), 'findings', 'c08_spike_scene.json')))
    for v in range(4):
        d = json.loads(json.dumps(neg))
        d['name'] = f'negscores:{v}'
        d['rows'] = [[r[0], r[1], (r[2] + 100 * v) if r[2] is not None else None, r[3]] for r in d['rows']]
        if v == 3:
            d['prms']['LAYERING_PRMS']['gmm_kwargs']['delta_mul_gain'] = 0.95
        descs.append(d)
    cfg = mcconf.chunk_cfg([], prmset='PrmMsaQ').replace('SPECIFICATION Spec\n', chunkprops.EXPORT_SPEC)
    f1, f1total = scenes.model_frames(cfg, 'PrmMsaQ', tier, seed, 300 if tier == 'quick' else 8000)
    for d in f1:
        d['ops'] = RUN_OPS
    descs += f1
    # "call-order problems that ampycloud refuses are signalled by AmpycloudError and by no other exception type":
    # every sequence of stage calls up to length 3 (4 in the thorough tier) on hand-driven chunks, plus sampled longer ones
    import itertools
    from .c14 import OPS
    walks = [list(w) for k in range(1, (3 if tier == 'quick' else 4) + 1) for w in itertools.product(OPS, repeat=k)]
    wr = random.Random(f'C08order:{seed}')
    walks += [[wr.choice(OPS) for _ in range(wr.randint(4, 7))] for _ in range(150 if tier == 'quick' else 3000)]
    for i, w in enumerate(walks):
        r2 = random.Random(f'C08order:{seed}:{i % 40}')
        shape = ['decks', 'single', 'nan', 'vv', 'decks', 'split'][i % 6]
        nt = r2.randint(6, 20)
        rows = []
        for c in ['a', 'b'][:r2.choice([1, 2])]:
            for t in range(nt):
                dt = -15.0 * (nt - 1 - t)
                if shape == 'decks':
                    rows += [[c, dt, 1000 + r2.choice([0, 10]), 1], [c, dt, 3000, 2]]
                elif shape == 'split':
                    rows += [[c, dt, 2000 + r2.choice([0, 5]), 1], [c, dt, 2270 + r2.choice([0, 5]), 2]]
                elif shape == 'single':
                    rows.append([c, dt, 1500 if (c == 'a' and t == 0) else None, 1 if (c == 'a' and t == 0) else 0])
                elif shape == 'nan':
                    rows.append([c, dt, None, 0])
                else:
                    rows.append([c, dt, r2.choice([100, 200]), -1])
        prms = {'MAX_HITS_OKTA0': r2.choice([0, 3])}
        if r2.random() < 0.3:
            prms['MSA'] = r2.choice([500, 2500])
        descs.append({'family': 'F6order', 'name': f'order:{seed}:{i}', 'rows': rows, 'prms': prms, 'indomain': True,
                      'ops': [['construct', '']] + [list(o) for o in w]})
    traces, inexact = fw.run_scenarios(descs)
    verdicts, stats = fw.judge_traces(out, traces, ['C08_'])
    # "data ... problems that ampycloud refuses are signalled by AmpycloudError and by no other exception type": the refused inputs
    # of Screening.tla (not a DataFrame at all, a missing column, an empty frame) through the check and through the construction
    from . import c15 as _c15
    refused = [f for f in _c15.export(tier) if f['obj'] != 'df' or f['missing'] != 'none' or not f['rows']]
    refused = refused[:400 if tier == 'quick' else 4000]
    rcases = fw.pool_map('harness.fnwork', 'screen_case', refused)
    rjobs, rres = _c15.judge(rcases, nshards=4)
    for j, res in zip(rjobs, rres):
        for clause in ('C15_OnlyAmpycloudError', 'C15_ConstructionOnlyAmpycloudError'):
            for k in res.get(clause, [])[:3]:
                c = j['cases'][k - 1]
                out.violation('C08_OnlyAmpycloudError', 'screening_case', {'frame': c['f'], 'clause': clause},
                              f"refused input {json.dumps(c['f'])[:160]} res={c['res']} {c['exc']} {[q['exc'] for q in c['cons']][:2]}")
    kinds = {}
    sig = set()
    nexc = 0
    for t in traces:
        k = t['name'].split(':')[0]
        kinds[k] = kinds.get(k, 0) + 1
        msgs = tuple(''.join(map(chr, e['msg'])) for e in t['events'] if e['op'] == 'metar_msg')
        sig.add((k, msgs, tuple(sorted((t['_desc'].get('prms') or {}).keys()))))
        nexc += sum(1 for e in t['events'] if e['res'] == 'exc')
    out.samples = [{'name': t['name'], 'rows': t['_desc']['rows'][:5], 'prms': t['_desc'].get('prms'),
                    'events': [(e['op'], e['arg'], e['res'], e['exc'], ''.join(map(chr, e['msg']))) for e in t['events']]}
                   for t in (traces[0], traces[len(traces) // 3], traces[-1])]
    out.assumptions = ['in-domain inputs: frames passing the consistency check; parameter leaves keep their documented meaning (scaling modes other than minmax-scale cannot be selected per call: see DESIGN 8)',
                       'third-party numerics (scikit-learn, statsmodels) are exercised, not modelled']
    cov = {'evaluations': len(traces), 'distinct_nontrivial': len(sig),
           'rule': 'one evaluation = run() + three metar_msg() on one scene x parameter set; distinct = distinct (scene kind, messages, parameter keys touched)',
           'kinds': kinds, 'exceptions_seen': nexc, 'refused_inputs_judged': len(rcases), 'inexact_skipped': len(inexact), 'traces_validated_against_impl': len(traces),
           'light_traces': sum(1 for t in traces if t.get('light')), 'checker_cmd': f'./check C08 --tier {tier}'}
    return out.finish('exploration', cov)


def replay(path):
    rp = json.load(open(path))
    if rp.get('kind') == 'screening_case' or 'frame' in rp.get('payload', {}):
        from . import c15 as _c15
        cases = fw.pool_map('harness.fnwork', 'screen_case', [rp['payload']['frame']])
        jobs, results = _c15.judge(cases, nshards=1)
        bad = {k: v for k, v in results[0].items() if v and k in ('C15_OnlyAmpycloudError', 'C15_ConstructionOnlyAmpycloudError')}
        print('case', cases[0]['res'], cases[0]['exc'], [q['exc'] for q in cases[0]['cons']], 'failing', bad)
        if bad:
            print(f'VIOLATION property=C08 replay={path}')
            return 1
        return 0
    return chunkprops.replay('C08', path)
