"""C09: results are bit-for-bit reproducible and the global random state is left alone.
(A) Session.tla explored completely (results a function of (data, parameters); ampycloud actions restore
the random state).  (C) histories over the action alphabet of SessionOps are executed, each in a FRESH
process started with its own PYTHONHASHSEED (0, 1, random), every process running its own sequence of
earlier runs, seeds and draws; (B) TLC replays every session: random-state digest unchanged by every
ampycloud action (including the demo data and a raising tmp_seed body), results equal to those seen
before in the same process and to the reference process."""
import os
import sys
import json
import random
import shutil
import tempfile
import subprocess
from concurrent.futures import ThreadPoolExecutor

from .. import framework as fw
from .. import tlc

MC_CFG = 'SPECIFICATION Spec\nCONSTANTS\n ND = 2\n NP = 2\n NR = 3\nINVARIANT Inv_Rng\nPROPERTY Prop_Reproducible\nCHECK_DEADLOCK FALSE\n'
ND, NP = 5, 5


def make_session(rng, name, length):
    acts = []
    for _ in range(length):
        r = rng.random()
        if r < 0.5:
            acts.append({'act': 'run', 'd': rng.randrange(ND), 'p': rng.randrange(NP)})
        elif r < 0.6:
            acts.append({'act': 'seed', 'v': rng.randrange(100000)})
        elif r < 0.67:
            acts.append({'act': 'draw', 'v': rng.randrange(5)})
        elif r < 0.74:
            acts.append({'act': 'gauss', 'v': rng.randrange(3)})
        elif r < 0.79:
            acts.append({'act': 'demo'})
        elif r < 0.84:
            acts.append({'act': 'gmm', 'v': rng.randrange(3)})
        elif r < 0.9:
            acts.append({'act': 'tmpok', 'v': rng.randrange(1000)})
        else:
            acts.append({'act': 'tmpraise', 'v': rng.randrange(1000)})
    return {'name': name, 'actions': acts}


def run_sessions(sessions, hashseeds):
    tmp = tempfile.mkdtemp(prefix='verif_sess_')
    try:
        def one(i):
            inp, outp = os.path.join(tmp, f'in{i}.json'), os.path.join(tmp, f'out{i}.json')
            with open(inp, 'w') as f:
                json.dump(sessions[i], f)
            env = dict(os.environ)
            hs = hashseeds[i % len(hashseeds)]
            if hs == 'random':
                env.pop('PYTHONHASHSEED', None)
                env['PYTHONHASHSEED'] = 'random'
            else:
                env['PYTHONHASHSEED'] = hs
            p = subprocess.run(['/venv/bin/python', '-m', 'harness.sessionwork', inp, outp], cwd=fw.VERIF, env=env,
                               capture_output=True, text=True, timeout=3000)
            if p.returncode != 0 or not os.path.exists(outp):
                raise fw.Machinery('session process failed: ' + (p.stderr or p.stdout)[-1500:])
            with open(outp) as f:
                return json.load(f)
        with ThreadPoolExecutor(max_workers=fw.NPROC) as ex:
            return list(ex.map(one, range(len(sessions))))
    finally:
        shutil.rmtree(tmp, ignore_errors=True)


def run(out, tier, seed):
    mc = fw.mc_run('Session', 'Session', MC_CFG, coverage=True, workers=4)
    rng = random.Random(seed + 9)
    nsess, length = (48, 36) if tier == 'quick' else (480, 60)
    # the reference process: every (data, parameters) once, nothing else
    # reference processes: one per parameter set, every data set once, nothing else before
    ref_sess = [{'name': f'reference:{p}', 'actions': [{'act': 'run', 'd': d, 'p': p} for d in range(ND)] + [{'act': 'demo'}] + [{'act': 'gmm', 'v': v} for v in range(3)]} for p in range(NP)]
    sessions = ref_sess + [make_session(rng, f'session:{i}', length) for i in range(nsess)]
    recs = run_sessions(sessions, ['0', '1', 'random', '12345'])
    ref = [[0] * NP for _ in range(10)]
    for r in recs[:NP]:
        for e in r['events']:
            if e['act'] == 'run' or r['name'] == 'reference:0':        # demo / gmm digests do not depend on the parameter set
                ref[e['d']][e['p']] = e['res']
    for i, r in enumerate(recs):
        r['tid'] = i + 1
        r['ref'] = ref
    verdicts, stats = tlc.validate_traces(recs, module='TraceSession')
    marks, sigs = {}, set()
    for r in recs:
        for step, fails, ms in sorted(verdicts[r['tid']]):
            for m in ms:
                marks[m] = marks.get(m, 0) + 1
            e = r['events'][step - 1]
            sigs.add((e['act'], e['d'], e['p'], r['hashseed'] == '0'))
            for c in fails:
                if c.startswith('C09_'):
                    out.violation(c, 'session', {'session': sessions[r['tid'] - 1], 'hashseed': r['hashseed'], 'clause': c, 'step': step},
                                  f"session={r['name']} PYTHONHASHSEED={r['hashseed']} step={step} act={e['act']} d={e['d']} p={e['p']} {e['exc']}")
    out.marks = marks
    out.samples = [{'name': recs[1]['name'], 'hashseed': recs[1]['hashseed'], 'events': recs[1]['events'][:8]}]
    out.assumptions = ['numerical-library thread counts pinned to 1 (OMP/OPENBLAS/MKL)', 'digests: 28 bits of SHA-256 over the raw bytes of data, tables and messages; CRC of the Mersenne-Twister state']
    nsteps = sum(len(r['events']) for r in recs)
    cov = {'states': mc['states'], 'transitions': mc['transitions'], 'traces_validated_against_impl': len(recs), 'evaluations': nsteps,
           'distinct_nontrivial': len(sigs), 'rule': 'one evaluation = one action of a session; distinct = distinct (action, data, parameters, hash-seed class); '
           f'{len(recs)} fresh processes with PYTHONHASHSEED in 0/1/random/12345', 'mc': [mc], 'exhaustive': False, 'checker_cmd': f'./check C09 --tier {tier}'}
    return out.finish('model_checking', cov)


def replay(path):
    rp = json.load(open(path))['payload']
    ref_sess = [{'name': f'reference:{p}', 'actions': [{'act': 'run', 'd': d, 'p': p} for d in range(ND)] + [{'act': 'demo'}] + [{'act': 'gmm', 'v': v} for v in range(3)]} for p in range(NP)]
    recs = run_sessions(ref_sess + [rp['session']], ['0'] * NP + [rp.get('hashseed', '1')])
    ref = [[0] * NP for _ in range(10)]
    for r in recs[:NP]:
        for e in r['events']:
            if e['act'] == 'run' or r['name'] == 'reference:0':        # demo / gmm digests do not depend on the parameter set
                ref[e['d']][e['p']] = e['res']
    for i, r in enumerate(recs):
        r['tid'] = i + 1
        r['ref'] = ref
    verdicts, _ = tlc.validate_traces(recs, module='TraceSession', shards=1)
    bad = [c for _, f, _ in verdicts[NP + 1] for c in f if c.startswith('C09_')]
    print('failing clauses', bad)
    if bad:
        print(f'VIOLATION property=C09 replay={path}')
        return 1
    return 0
