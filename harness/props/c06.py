from . import chunkprops


def run(out, tier, seed):
    return chunkprops.run_plan(out, tier, seed, 'C06')


def replay(path):
    return chunkprops.replay('C06', path)
