from . import paramprops


def run(out, tier, seed):
    return paramprops.run(out, tier, seed, 'C12')


def replay(path):
    return paramprops.replay('C12', path)
