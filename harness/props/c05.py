from . import chunkprops


def run(out, tier, seed):
    return chunkprops.run_plan(out, tier, seed, 'C05')


def replay(path):
    return chunkprops.replay('C05', path)
