"""Checks of the properties that speak about one chunk driven through the pipeline (C01-C06).
(A) TLC model-checks the Chunk.tla instance with the property's invariants for every oracle outcome;
(B)/(C) TLC-enumerated scenario families and seeded random scenes are executed by the real code and
TLC evaluates the property's clauses (Props.tla) on every recorded step."""
import json
import time

from .. import framework as fw
from .. import scenes, randscenes, mcconf, tlc

EXPORT_SPEC = 'INIT ExpInit\nNEXT ExpNext\n'


def fam_layer_tables(tier, seed, n):
    return scenes.layer_table_descs(tier, seed, n)


def fam_nm(tier, seed, n):
    return scenes.nm_descs(tier, seed, n)


def fam_bands(tier, seed, n):
    return scenes.band_descs(tier, seed, n)


def fam_split(tier, seed, n):
    return scenes.split_descs(tier, seed, n)


def fam_rand(size):
    def f(tier, seed, n):
        return randscenes.rand_scenes(seed, n, size), None
    return f


def fam_negative(tier, seed, n):
    return randscenes.negative_scenes(seed, n - n // 4, 'tiny') + randscenes.negative_scenes(seed, n // 4, 'mid'), None


def fam_crossing(tier, seed, n):
    return randscenes.crossing_scenes(seed, n), None


def fam_tail(tier, seed, n):
    """ canonical run followed by calls that must be refused (find_groups, metarize groups) and by repeated permitted stages:
    the accounting of the hits must survive them """
    out = []
    tails = [[['find_groups', '']], [['metarize', 'groups']], [['find_groups', ''], ['find_layers', '']], [['find_layers', ''], ['find_groups', '']],
             [['find_slices', ''], ['find_groups', '']]]
    for i, d in enumerate(randscenes.rand_scenes(seed, n, 'tiny', tag='T') if n <= 200 else randscenes.rand_scenes(seed, n, 'tiny', tag='T')):
        d = dict(d)
        d.pop('gedit', None)
        d['ops'] = [['construct', ''], ['find_slices', ''], ['find_groups', ''], ['find_layers', '']] + tails[i % len(tails)] + [['metar_msg', 'layers']]
        d['family'] = 'F6tail'
        out.append(d)
    for i, d in enumerate(scenes.band_descs(tier, seed, min(n, 150))[0]):      # scenes in which groups merge
        d = dict(d)
        d['ops'] = [['construct', ''], ['find_slices', ''], ['find_groups', ''], ['find_layers', '']] + tails[i % len(tails)] + [['metar_msg', 'layers']]
        d['family'] = 'F6tail'
        out.append(d)
    return out, None


def fam_fractional(tier, seed, n):
    """ decks at fractional heights a few hundredths of a foot around coding steps and at the top of the range [0, 100000): the
    pipeline is off the integer lattice there, the traces carry outcomes and messages only (judged for grammar and totality) """
    import random
    out = []
    steps = [100, 1000, 9900, 10000, 11000, 50000, 99000, 100000]
    for i in range(n):
        rng = random.Random(f'frac:{seed}:{i}')
        k = steps[i % len(steps)] if i < 3 * len(steps) else rng.choice(steps)
        top = k - rng.choice([0.01, 0.03, 0.04, 0.06, 0.3, 0.5])
        nt = rng.randint(8, 30)
        rows = []
        ceilos = ['a', 'b'][:rng.choice([1, 2])]
        low = rng.random() < 0.4 and top > 4000
        for c in ceilos:
            for t in range(nt):
                dt = -15.0 * (nt - 1 - t)
                if low:
                    rows.append([c, dt, 1000.0, 1])
                    rows.append([c, dt, top, 2])
                else:
                    rows.append([c, dt, top, 1])
        out.append({'family': 'F3e', 'name': f'frac:{seed}:{i}', 'rows': rows, 'prms': {'MAX_HITS_OKTA0': 0}, 'indomain': True, 'light': True})
    return out, None


def fam_lonemulti(tier, seed, n):
    return randscenes.lone_multihit_scenes(seed, n), None


def fam_anomaly(tier, seed, n):
    return randscenes.anomaly_scenes(seed, n), None


def fam_model(prmset, **kw):
    def f(tier, seed, n):
        cfg = mcconf.chunk_cfg([], prmset=prmset, **kw).replace('SPECIFICATION Spec\n', EXPORT_SPEC)
        return scenes.model_frames(cfg, prmset, tier, seed, n)
    return f


def fam_tiesplit(tier, seed, n):
    return scenes.tiesplit_descs(tier, seed, n)


def fam_boundary(tier, seed, n):
    return scenes.boundary_descs(seed, n), None


def fam_limit(tier, seed, n):
    """ two decks whose distance lies between the separations of two neighbouring bins, the upper one with an interpolated base a
    fraction of a foot above / below / exactly at the limit between the bins (integer heights, the percentile interpolates) """
    import random
    out = []
    confs = [({}, 10000, 250, 1000), ({'MIN_SEP_VALS': [100, 700], 'MIN_SEP_LIMS': [2000]}, 2000, 100, 700),
             ({'MIN_SEP_VALS': [250, 600, 1000], 'MIN_SEP_LIMS': [3000, 5000]}, 5000, 600, 1000)]
    for i in range(n):
        rng = random.Random(f'limit:{seed}:{i}')
        prms, L, slo, shi = confs[i % len(confs)]
        prms = dict(prms, MAX_HITS_OKTA0=0)
        nh = [5, 9, 11, 13, 17, 21][(i // 3) % 6]            # 5th percentile at virtual index 0.2, 0.4, 0.5, 0.6, 0.8, 1.0
        side = [0, 0, -1, 0, -2][(i // 18) % 5]                # lowest hit at the limit, one or two feet below it
        step = rng.choice([1, 1, 2])
        d = rng.choice([slo + 50, (slo + shi) // 2, shi - 1, shi, shi + 1])
        rows = []
        for t in range(nh):
            dt = -15.0 * (nh - 1 - t)
            up = L + side + (0 if t == nh // 2 else step + (t % 3))
            rows.append(['a', dt, L + side - d + (t % 2), 1])
            rows.append(['a', dt, up, 2])
        if rng.random() < 0.3:
            rows.reverse()
        out.append({'family': 'F3g', 'name': f'limit:{seed}:{i}', 'rows': rows, 'prms': prms, 'indomain': True})
    return out, None


def fam_lookback(tier, seed, n):
    """ look-back windows whose size n * perc / 100 is an exact integer, with the oldest hit of the window the lowest one: the window
    must hold exactly that many hits (includes the (n, perc) pairs for which n * (perc / 100) falls just below the integer in floats) """
    import random
    hard = [(nn, pp) for nn in range(8, 130) for pp in range(1, 100) if (nn * pp) % 100 == 0 and int(nn * (pp / 100)) != nn * pp // 100]
    easy = [(20, 50), (40, 30), (50, 10), (60, 70), (25, 20)]
    out = []
    for i in range(n):
        rng = random.Random(f'lookback:{seed}:{i}')
        nn, pp = (hard + easy)[i % (len(hard) + len(easy))]
        k = nn * pp // 100                                     # the window: the k most recent hits
        H = rng.choice([1500, 3000])
        low = rng.choice([k, k, k + 1, max(1, k - 1)])         # which of the most recent hits is the low one (k: the edge of the window)
        rows = [['a', -15.0 * j, H - (20 if j + 1 == low else 0), 1] for j in range(nn)]
        if rng.random() < 0.5:
            rows.reverse()
        out.append({'family': 'F3h', 'name': f'lookback:{seed}:{i}:{nn}:{pp}', 'rows': rows, 'indomain': True,
                    'prms': {'BASE_LVL_LOOKBACK_PERC': pp, 'BASE_LVL_HEIGHT_PERC': rng.choice([0, 0, 5]), 'MAX_HITS_OKTA0': 0}})
    return out, None


def fam_stress(tier, seed, n):
    """ real-size stress scenes: > 100 slices with a dense two-level group lowest (layer-id space),
    many groups, many layers """
    out = []
    for v in range(n):
        nsing = 104 + 3 * v
        step = 88000 // nsing
        rows = [['a', -15.0 * i, 2000 + step * i, 1] for i in range(nsing)]
        rows += [['b', -1.0 * i, 50 + (i % 2) * 300 + (i % 5), 1] for i in range(60)]
        if v % 2:
            rows += [['c', -1.0 * i - 0.5, 600 + (i % 2) * 280 + (i % 3), 1] for i in range(62)]
        out.append({'family': 'F4stress', 'name': f'stress:{v}', 'rows': rows, 'indomain': True,
                    'prms': {'SLICING_PRMS': {'distance_threshold': 0.9 * step / 90000.0},
                             'MIN_SEP_VALS': [250], 'MIN_SEP_LIMS': []}})
    return out, None


PLANS = {
    'C01': {
        'prefixes': ['C01_'],
        'mc': {'quick': [('msa', dict(invariants=['Inv_C01'], prmset='PrmMsaQ', ceilos=('a',), nt=3))],
               'thorough': [('msa', dict(invariants=['Inv_C01'], prmset='PrmMsa', ceilos=('a',), nt=3)),
                            ('msa2', dict(invariants=['Inv_C01'], prmset='PrmMsaQ', ceilos=('a', 'b'), nt=2, vv=True, maxper=1))]},
        'families': {'quick': [('F2', fam_layer_tables, 700), ('F1', fam_model('PrmMsaQ'), 200), ('Rcross', fam_crossing, 80), ('F3e', fam_fractional, 64), ('Rtiny', fam_rand('tiny'), 250), ('Rmid', fam_rand('mid'), 40)],
                     'thorough': [('F2', fam_layer_tables, 12000), ('F1', fam_model('PrmMsa'), 6000), ('F1x', fam_model('PrmMsaQ', ceilos=('a',), nt=3), None), ('Rcross', fam_crossing, 1000), ('F3e', fam_fractional, 800), ('Rtiny', fam_rand('tiny'), 3000), ('Rmid', fam_rand('mid'), 400)]},
        'marks': ['N_tok1', 'N_tok2', 'N_tok3', 'N_msaeq', 'N_abovemsa', 'N_suppressed', 'N_4rep', 'N_okta0row', 'N_ncd', 'N_nsc'],
    },
    'C02': {
        'prefixes': ['C02_'],
        'mc': {'quick': [('msa', dict(invariants=['Inv_C02'], prmset='PrmMsaQ', ceilos=('a',), nt=3))],
               'thorough': [('msa', dict(invariants=['Inv_C02'], prmset='PrmMsa', ceilos=('a',), nt=3)),
                            ('msa2', dict(invariants=['Inv_C02'], prmset='PrmMsaQ', ceilos=('a', 'b'), nt=2, vv=True, maxper=1))]},
        'families': {'quick': [('F2', fam_layer_tables, 700), ('F1', fam_model('PrmMsaQ'), 200), ('Rcross', fam_crossing, 80), ('Rtiny', fam_rand('tiny'), 250), ('Rmid', fam_rand('mid'), 40)],
                     'thorough': [('F2', fam_layer_tables, 12000), ('F1', fam_model('PrmMsa'), 6000), ('F1x', fam_model('PrmMsaQ', ceilos=('a',), nt=3), None), ('Rcross', fam_crossing, 1000), ('Rtiny', fam_rand('tiny'), 3000), ('Rmid', fam_rand('mid'), 400)]},
        'marks': ['N_ceilnotfirst', 'N_msaeq', 'N_abovemsa', 'N_ncd', 'N_nsc', 'N_flagedge', 'N_suppressed', 'N_okta0row'],
        'seed_shift': 7,
    },
    'C03': {
        'prefixes': ['C03_'],
        'mc': {'quick': [('okta', dict(invariants=['Inv_C03'], prmset='PrmOkta', ceilos=('a',), nt=3, slice_oracle='bands'))],
               'thorough': [('okta', dict(invariants=['Inv_C03'], prmset='PrmOkta', ceilos=('a', 'b'), nt=2, slice_oracle='bands')),
                            ('okta3', dict(invariants=['Inv_C03'], prmset='PrmOkta', ceilos=('a',), nt=4))]},
        'families': {'quick': [('F7nm', fam_nm, 900), ('F1', fam_model('PrmOkta'), 250), ('Ranomaly', fam_anomaly, 250), ('Rneg', fam_negative, 100), ('Rtiny', fam_rand('tiny'), 250), ('Rmid', fam_rand('mid'), 40)],
                     'thorough': [('F7nm', fam_nm, 25000), ('F1', fam_model('PrmOkta'), 6000), ('F1x', fam_model('PrmOkta', ceilos=('a',), nt=3), None), ('Ranomaly', fam_anomaly, 3000), ('Rneg', fam_negative, 1500), ('Rtiny', fam_rand('tiny'), 3000), ('Rmid', fam_rand('mid'), 400)]},
        'marks': ['N_multihit', 'N_okta0buf', 'N_okta8buf', 'N_oktatie', 'N_rows'],
        'seed_shift': 11,
    },
    'C04': {
        'prefixes': ['C04_'],
        'mc': {'quick': [('base', dict(invariants=['Inv_C04'], prmset='PrmBaseQ', ceilos=('a', 'b'), nt=2, maxper=1))],
               'thorough': [('base', dict(invariants=['Inv_C04'], prmset='PrmBase', ceilos=('a', 'b'), nt=2, maxper=1)),
                            ('code', dict(invariants=['Inv_C04'], prmset='PrmBaseQ', ceilos=('a', 'b'), nt=2, lattice='LatticeB', maxper=1)),
                            ('base3', dict(invariants=['Inv_C04'], prmset='PrmBaseQ', ceilos=('a',), nt=4, maxper=1, orders=('asc', 'desc')))]},
        'families': {'quick': [('F3', fam_bands, 500), ('F3b', fam_split, 150), ('F3c', fam_boundary, 300), ('F3h', fam_lookback, 40), ('Rlone', fam_lonemulti, 80), ('Rcross', fam_crossing, 60), ('Rtiny', fam_rand('tiny'), 300), ('Rmid', fam_rand('mid'), 60)],
                     'thorough': [('F3', fam_bands, 12000), ('F3b', fam_split, 3000), ('F3c', fam_boundary, 4000), ('F3h', fam_lookback, 400), ('Rlone', fam_lonemulti, 1500), ('Rtiny', fam_rand('tiny'), 4000), ('Rmid', fam_rand('mid'), 600), ('Rbig', fam_rand('big'), 60)]},
        'marks': ['N_lookback', 'N_baseties', 'N_excl', 'N_fallback', 'N_interp', 'N_above10k', 'N_floattie', 'N_nearboundary'],
        'seed_shift': 13,
    },
    'C05': {
        'prefixes': ['C05_'],
        'mc': {'quick': [('ids', dict(invariants=['Inv_C05'], prmset='PrmSplit', ceilos=('a',), nt=2, slice_oracle='any', group_oracle='hits')),
                         ('ids3', dict(invariants=['Inv_C05'], prmset='PrmSplit', ceilos=('a',), nt=3, maxper=1, slice_oracle='any', group_oracle='hits')),
                         ('layerids', 'MC_LayerIds')],
               'thorough': [('ids', dict(invariants=['Inv_C05'], prmset='PrmSplit', ceilos=('a', 'b'), nt=2, slice_oracle='any', group_oracle='hits', maxper=1)),
                            ('ids2', dict(invariants=['Inv_C05'], prmset='PrmSplit', ceilos=('a',), nt=2, slice_oracle='any', group_oracle='hits')),
                            ('ids3', dict(invariants=['Inv_C05'], prmset='PrmSplit', ceilos=('a', 'b'), nt=2, slice_oracle='bands', group_oracle='slices')),
                            ('layerids', 'MC_LayerIds')]},
        'families': {'quick': [('F4stress', fam_stress, 2), ('F3b', fam_split, 120), ('F1', fam_model('PrmSplit'), 200), ('Ranomaly', fam_anomaly, 150), ('F6tail', fam_tail, 120), ('Rneg', fam_negative, 100), ('Rtiny', fam_rand('tiny'), 250), ('Rmid', fam_rand('mid'), 80)],
                     'thorough': [('F4stress', fam_stress, 8), ('F3b', fam_split, 2000), ('F1', fam_model('PrmSplit'), 5000), ('F1x', fam_model('PrmSplit', ceilos=('a',), nt=3), None), ('Ranomaly', fam_anomaly, 2000), ('F6tail', fam_tail, 1500), ('Rneg', fam_negative, 1500), ('Rtiny', fam_rand('tiny'), 3000), ('Rmid', fam_rand('mid'), 800), ('Rbig', fam_rand('big'), 80)]},
        'marks': ['N_split', 'N_split3', 'N_gmm1', 'N_merge', 'N_crop', 'N_cropdrop', 'N_multihit'],
        'seed_shift': 17,
    },
    'C06': {
        'prefixes': ['C06_'],
        'mc': {'quick': [('sep', dict(invariants=['Inv_C06g', 'Inv_C06l'], prmset='PrmSepQ', ceilos=('a', 'b'), nt=2, lattice='LatticeD', maxper=1, orders=('desc',))),
                         ('excl', dict(invariants=['Inv_C06g'], prmset='PrmPinM', ceilos=('a', 'b'), nt=2, lattice='LatticeE', maxper=1)),
                         ('mergeloop', 'MC_Merge')],
               'thorough': [('mergeloop', 'MC_Merge'), ('sep', dict(invariants=['Inv_C06g', 'Inv_C06l'], prmset='PrmSep', ceilos=('a', 'b'), nt=2, lattice='LatticeD', maxper=1, orders=('asc', 'desc'))),
                            ('sep4', dict(invariants=['Inv_C06g', 'Inv_C06l'], prmset='PrmSepQ', ceilos=('a', 'b'), nt=2, lattice='LatticeC', maxper=1, orders=('asc', 'desc'))),
                            ('order', dict(invariants=['Inv_C06l'], prmset='PrmPinO', ceilos=('a',), nt=4, lattice='LatticeF', maxper=2, orders=('desc',))),
                            ('excl', dict(invariants=['Inv_C06g'], prmset='PrmPinM', ceilos=('a', 'b'), nt=2, lattice='LatticeE', maxper=1)),
                            ('pinned_merge', dict(invariants=['Inv_C06g'], prmset='PrmPinM', ceilos=('a', 'b'), nt=2, lattice='LatticeE', maxper=1, merge_excl=False), 'Inv_C06g'),
                            ('pinned_order', dict(invariants=['Inv_C06l'], prmset='PrmPinO', ceilos=('a',), nt=4, lattice='LatticeF', maxper=2, orders=('desc',), gmm_time=False), 'Inv_C06l')]},
        'families': {'quick': [('F3', fam_bands, 500), ('F3b', fam_split, 300), ('F3d', fam_tiesplit, 144), ('F3g', fam_limit, 180), ('Rneg', fam_negative, 160), ('Rtiny', fam_rand('tiny'), 250), ('Rmid', fam_rand('mid'), 60)],
                     'thorough': [('F3', fam_bands, 12000), ('F3b', fam_split, None), ('F3d', fam_tiesplit, 2500), ('F3g', fam_limit, 2700), ('Rneg', fam_negative, 2000), ('Rtiny', fam_rand('tiny'), 4000), ('Rmid', fam_rand('mid'), 800), ('Rbig', fam_rand('big'), 60)]},
        'marks': ['N_merge', 'N_2groups', 'N_sepbin2', 'N_noremerge', 'N_split', 'N_split3'],
        'seed_shift': 19,
    },
}


def run_plan(out, tier, seed, pid, extra_traces_hook=None):
    plan = PLANS[pid]
    sseed = seed + plan.get('seed_shift', 0)
    # ---------------- (A) model checking ----------------
    mcs = []
    for ent in plan['mc'][tier]:
        name, conf = ent[0], ent[1]
        expect = ent[2] if len(ent) > 2 else None
        if isinstance(conf, str):
            from . import mcextra
            mcs.append(mcextra.run(conf, tier))
        else:
            mcs.append(fw.mc_run(f'{pid}:{name}', 'MC_Chunk', mcconf.chunk_cfg(**conf), expect_violation=expect,
                                 coverage=(tier == 'thorough' and expect is None)))
    if pid == 'C03':
        # function level: the okta with both buffers never decreases with the count (all totals up to the bound, all buffers 0..6)
        from .. import fnjobs
        mmax = 48 if tier == 'quick' else 160
        jres = fnjobs.run_jobs([{'kind': 'c03mono', 'lo': a, 'hi': min(a + 15, mmax)} for a in range(1, mmax + 1, 16)])
        for r in jres:
            for clause, keys in r.items():
                if keys:
                    raise fw.Machinery(f'{clause} fails on the transcription for totals {keys[:5]}')
        mcs.append({'name': 'C03:okta-monotone', 'module': 'FnTables', 'states': 2 * len(jres), 'transitions': len(jres), 'depth': 1, 'wall_s': 0,
                    'violated': None, 'coverage': None, 'domain': f'all (n, m) with m <= {mmax}, buffers 0..6'})
    # ---------------- (B)/(C) scenarios through the real code ----------------
    descs, fam_counts, fam_totals = [], {}, {}
    for fname, gen, n in plan['families'][tier]:
        ds, total = gen(tier, sseed, n)
        for d in ds:
            d.setdefault('family', fname)
        descs += ds
        fam_counts[fname] = len(ds)
        fam_totals[fname] = total
    t0 = time.time()
    traces, inexact = fw.run_scenarios(descs)
    t_run = time.time() - t0
    verdicts, stats = fw.judge_traces(out, traces, plan['prefixes'])
    # realisation of the abstract F2 tables is observed, never assumed
    f2 = [t for t in traces if t.get('family') == 'F2']
    realised = sum(1 for t in f2 if scenes.realised_f2(t))
    # ---------------- evidence ----------------
    rel = set(plan['marks'])
    bytid = {t['tid']: t for t in traces}
    sigs = set()
    for tid, vs in verdicts.items():
        ms = set()
        for _, _, m in vs:
            ms.update(m)
        if ms & rel:
            msgs = tuple(''.join(map(chr, e['msg'])) for e in bytid[tid]['events'] if e['op'] == 'metar_msg')
            sigs.add((tuple(sorted(ms & rel)), msgs))
    nontriv = len(sigs)
    out.samples = [{'name': t['name'], 'family': t['family'], 'rows': t['_desc']['rows'][:6], 'prms': t['_desc'].get('prms'),
                    'messages': [''.join(map(chr, e['msg'])) for e in t['events'] if e['op'] == 'metar_msg']}
                   for t in traces[:1] + traces[len(traces) // 2: len(traces) // 2 + 2]]
    out.assumptions = [
        'heights are integer feet in [0, 100000); parameters integer-valued; dt enters only through order and equality',
        'oracles (scikit-learn clustering / mixtures, statsmodels LOWESS) are black boxes: the model quantifies over their outcomes, traces log them',
        'model instances use small constants (see mc entries); real-size scenes are sampled',
        'TLC (tla2tools 1.8.0) evaluates the clauses; the tracer only projects floats to scaled integers (refusing values off the lattice)']
    cov = {
        'states': sum(m['states'] for m in mcs), 'transitions': sum(m['transitions'] for m in mcs),
        'traces_validated_against_impl': len(traces),
        'evaluations': len(traces), 'distinct_nontrivial': nontriv,
        'rule': 'one evaluation = one scenario executed by the real code and judged step by step by TLC; non-trivial = exercises at least one of ' + ', '.join(plan['marks']) + '; distinct = distinct (set of these situations, the three messages) signatures',
        'mc': mcs, 'families': fam_counts, 'family_space': fam_totals, 'inexact_skipped': len(inexact),
        'f2_realised': [realised, len(f2)], 'trace_steps': sum(len(t['events']) for t in traces),
        'run_wall_s': round(t_run, 1), 'tlc_trace_wall_s': round(stats['wall_s'], 1),
        'checker_cmd': f'./check {pid} --tier {tier}',
        'exhaustive': False,
        'exhaustive_families': [k for k, v in fam_totals.items() if v is not None and fam_counts.get(k) == v],
    }
    if f2 and realised < 0.9 * len(f2):
        raise fw.Machinery(f'only {realised}/{len(f2)} abstract layer tables realised by the real pipeline')
    return out.finish('model_checking', cov)


def replay(pid, path):
    with open(path) as f:
        rp = json.load(f)
    desc = rp['payload']['desc']
    out = fw.Outcome(pid, 'quick', 0)
    traces, inexact = fw.run_scenarios([desc])
    if not traces:
        print('replay: scenario not representable', inexact)
        return 2
    verdicts, _ = tlc.validate_traces([fw.strip(t) for t in traces], shards=1)
    bad = []
    for step, fails, marks in sorted(verdicts[1]):
        ev = traces[0]['events'][step - 1]
        print(f'step {step} {ev["op"]}({ev.get("arg", "")}) res={ev["res"]} {ev["exc"]} msg={"".join(map(chr, ev["msg"]))!r} failing={fails}')
        bad += [c for c in fails if any(c.startswith(p) for p in (PLANS[pid]['prefixes'] if pid in PLANS else [pid + '_']))]
    if bad:
        print(f'VIOLATION property={pid} replay={path}')
        return 1
    print('replay: property clauses hold')
    return 0
