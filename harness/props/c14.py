"""C14: any order of stage calls raises AmpycloudError or gives the canonical result.
(A) Stage.tla is explored completely (every reachable state of the call-order machine, any sequence
length) for data with and without groups; (C) its state graph is dumped by TLC and walked: every edge
through a shortest path, all operation sequences up to a bound, and sampled longer walks are driven
through a real chunk; (B) TLC replays each recorded walk against StageOps (refusal iff the machine
refuses, state intact on refusal) and against the canonical run (tables, ids and messages)."""
import os
import re
import json
import random
import shutil
import tempfile
import itertools

from .. import framework as fw
from .. import tlc
from . import chunkprops

OPS = [('find_slices', ''), ('find_groups', ''), ('find_layers', ''),
       ('metarize', 'slices'), ('metarize', 'groups'), ('metarize', 'layers'),
       ('metar_msg', 'slices'), ('metar_msg', 'groups'), ('metar_msg', 'layers')]

STAGE_CFG = '''SPECIFICATION Spec
CONSTANT NG = "%s"
VIEW View
INVARIANT Inv_Columns
INVARIANT Inv_Order
INVARIANT Inv_Annot
PROPERTY Prop_LayeringKept
PROPERTY Prop_RefusedIntact
PROPERTY Prop_GroupsProtected
CHECK_DEADLOCK FALSE
'''


def stage_graph(ng):
    """ model-check Stage.tla and return (mc stats, nodes, edges[(src, op, arg, dst)], init) """
    tmp = tempfile.mkdtemp(prefix='verif_stage_')
    try:
        dot = os.path.join(tmp, 'g.dot')
        r = tlc.run_tlc('Stage', STAGE_CFG % ng, workers=1, args=['-dump', 'dot,actionlabels', dot, '-coverage', '1'])
        if r['violated'] or r['error']:
            raise fw.Machinery(f"Stage.tla: {r['violated']} {r['error']}")
        txt = open(dot).read()
    finally:
        shutil.rmtree(tmp, ignore_errors=True)
    edges = []
    for m in re.finditer(r'(-?\d+) -> (-?\d+) \[label="Call\(<<\\"(\w+)\\", \\"(\w*)\\">>\)"', txt):
        edges.append((m.group(1), m.group(3), m.group(4), m.group(2)))
    nodes = set(re.findall(r'^(-?\d+) \[label=', txt, re.M))
    init = re.search(r'^(-?\d+) \[label="[^\n]*style = filled\]', txt, re.M).group(1)
    stats = {'name': f'Stage(NG={ng})', 'module': 'Stage', 'states': r['distinct'], 'transitions': r['generated'],
             'depth': r['depth'], 'wall_s': round(r['wall_s'], 1), 'graph_nodes': len(nodes), 'graph_edges': len(edges),
             'coverage': tlc.coverage_counts(r['out'])}
    return stats, nodes, edges, init


def edge_cover_walks(nodes, edges, init):
    """ for every edge of the graph: a shortest path from the initial state followed by the edge """
    adj = {}
    for s, op, arg, d in edges:
        adj.setdefault(s, []).append((op, arg, d))
    path = {init: []}
    queue = [init]
    while queue:
        n = queue.pop(0)
        for op, arg, d in adj.get(n, []):
            if d not in path:
                path[d] = path[n] + [(op, arg)]
                queue.append(d)
    walks = []
    for s, op, arg, d in edges:
        if s in path:
            walks.append(path[s] + [(op, arg)])
    return walks


def scene_rows(kind):
    if kind == 'mergesplit':
        rows = []
        for i in range(40):
            t = -15.0 * (39 - i)
            rows += [['a', t, 1000 + (i % 3) - 1, 1], ['a', t, 1150 + (i % 3) - 1, 2], ['a', t, 3000, 3], ['a', t, 3600, 4]]
        prms = {'MIN_SEP_VALS': [100, 700], 'MIN_SEP_LIMS': [2000]}
        return rows, prms
    if kind == 'allnan':
        return [['a', -15.0 * i, None, 0] for i in range(5)] + [['b', -15.0 * i, None, 0] for i in range(3)], {}
    if kind == 'simple':
        rows = []
        for i in range(8):
            t = -15.0 * (7 - i)
            rows.append(['a', t, 1000, 1])
            if i % 2:
                rows.append(['a', t, 4000, 2])
        return rows, {'MSA': 5000, 'MAX_HITS_OKTA0': 1}
    if kind in ('msabuf', 'msaonly'):
        # clouds whose base lies between the MSA and the MSA plus the hit buffer: kept in the tables, flagged, not reported
        rows = []
        for i in range(12):
            t = -15.0 * (11 - i)
            if kind == 'msabuf':
                rows.append(['a', t, 1000, 1])
            rows.append(['a', t, 4000 + (i % 2), 2 if kind == 'msabuf' else 1])
        return rows, {'MSA': 3500, 'MSA_HIT_BUFFER': 1500, 'MAX_HITS_OKTA0': 1}
    if kind == 'mergeonly':
        # decks at 1000 and 1230 ft sliced apart and merged by the grouping (230 < 250 ft), a sparse deck at 1950 ft; nothing is split
        rows = []
        for c in ('a', 'b'):
            for k in range(40):
                t = -30.0 * (39 - k)
                jit = (k * 7) % 5 * 4 - 8
                rows.append([c, t, (1000 if (k + (c == 'b')) % 2 == 0 else 1230) + jit, 1])
                if k % 3 == 0:
                    rows.append([c, t, 1950 + 2 * jit, 2])
        return rows, {}
    if kind == 'twodecks':          # the scene on which the pinned tree let a refused find_groups rewrite group_id
        rows = [['a', -15.0 * i, 2400 + (i % 3), 1] for i in range(40)] + [['a', -15.0 * i, 2600 + (i % 3), 2] for i in range(40)]
        return rows, {}
    raise ValueError(kind)


def run(out, tier, seed):
    rng = random.Random(seed + 14)
    mcs, walks_by_ng, cover_by_ng = [], {}, {}
    for ng in ('some', 'zero'):
        stats, nodes, edges, init = stage_graph(ng)
        mcs.append(stats)
        walks = edge_cover_walks(nodes, edges, init)
        cover_by_ng[ng] = {tuple(w) for w in walks}
        maxlen = 3 if tier == 'quick' else 4
        for n in range(1, maxlen + 1):
            walks += [list(w) for w in itertools.product(OPS, repeat=n)]
        nrand = 250 if tier == 'quick' else 6000
        for _ in range(nrand):
            walks.append([rng.choice(OPS) for _ in range(rng.randint(4, 8))])
        # distinct walks only
        seen, uniq = set(), []
        for w in walks:
            k = tuple(w)
            if k not in seen:
                seen.add(k)
                uniq.append(w)
        walks_by_ng[ng] = uniq
    scenes_ = [('mergesplit', 'some'), ('mergeonly', 'some'), ('twodecks', 'some'), ('simple', 'some'), ('msabuf', 'some'), ('msaonly', 'some'), ('allnan', 'zero')]
    descs = []
    for kind, ng in scenes_:
        rows, prms = scene_rows(kind)
        ws = walks_by_ng[ng]
        if tier == 'quick' and kind in ('twodecks', 'simple', 'msabuf', 'msaonly', 'mergeonly'):
            # always: every edge of the call-order machine (shortest path + the edge) and every sequence up to length 2
            keep = [w for w in ws if len(w) <= 2 or tuple(w) in cover_by_ng[ng]]
            ws = keep + rng.sample([w for w in ws if not (len(w) <= 2 or tuple(w) in cover_by_ng[ng])], 200)
        for i, w in enumerate(ws):
            descs.append({'family': 'F6walk', 'name': f'walk:{kind}:{i}', 'rows': rows, 'prms': prms, 'indomain': True,
                          'with_canon': True, 'ops': [['construct', '']] + [list(o) for o in w], 'scene': kind})
    traces, inexact = fw.run_scenarios(descs)
    bad_canon = [t['name'] for t in traces if not t['canon']['has']]
    if bad_canon:
        raise fw.Machinery(f'canonical run failed for {bad_canon[:3]}')
    wrong_ng = [t['name'] for t in traces if t['canon']['ng'] != dict(scenes_)[t['_desc']['scene']]]
    if wrong_ng:
        raise fw.Machinery(f'scene did not realise the intended group class: {wrong_ng[:3]}')
    ms = [t for t in traces if t['_desc']['scene'] == 'mergesplit']
    if not all(t['canon']['merged'] and t['canon']['split'] for t in ms):
        raise fw.Machinery('the merging+splitting scene did not merge and split in the canonical run')
    mo = [t for t in traces if t['_desc']['scene'] == 'mergeonly']
    if not all(t['canon']['merged'] and not t['canon']['split'] for t in mo):
        raise fw.Machinery('the merge-only scene did not merge without splitting in the canonical run')
    verdicts, stats = fw.judge_traces(out, traces, ['C14_'])
    nrefused = sum(1 for t in traces for e in t['events'] if e['res'] == 'exc')
    merged = sum(1 for t in traces[:1] for e in t['events'] if e['op'] == 'find_groups' and e['taps']['g0'] != e['taps']['g1'])
    sigs = {tuple((e['op'], e['arg'], e['res']) for e in t['events']) for t in traces}
    out.samples = [{'scene': t['_desc']['scene'], 'ops': [(e['op'], e['arg'], e['res'], e['exc']) for e in t['events']]}
                   for t in (traces[40], traces[len(traces) // 2], traces[-1])]
    out.assumptions = ['stage granularity: one event per public call; the canonical reference is a fresh chunk of the same scene run by the same worker',
                       'scenes: merging+splitting, two decks, simple, all non-detections (no group)']
    cov = {'states': sum(m['states'] for m in mcs), 'transitions': sum(m['transitions'] for m in mcs),
           'traces_validated_against_impl': len(traces), 'evaluations': len(traces), 'distinct_nontrivial': len(sigs),
           'rule': 'one evaluation = one operation sequence driven through a real chunk and replayed by TLC against StageOps and the canonical run; '
                   'distinct = distinct (operation, outcome) sequences; all edges of the dumped state graph are covered through shortest paths, '
                   f'all sequences up to length {3 if tier == "quick" else 4} on the main scenes',
           'mc': mcs, 'refused_calls': nrefused, 'walks': {k: len(v) for k, v in walks_by_ng.items()},
           'trace_steps': sum(len(t['events']) for t in traces), 'exhaustive': False,
           'checker_cmd': f'./check C14 --tier {tier}'}
    return out.finish('model_checking', cov)


def replay(path):
    return chunkprops.replay('C14', path)
