"""C13: concurrent or interleaved chunks with per-call parameters do not interfere.
(A) Interleave.tla: every interleaving of the stage steps of N chunks, with an edit of the global
dictionary anywhere, leaves each chunk with the result of processing it alone; TLC also emits every
complete schedule.  (C) each emitted schedule is driven through real chunks with distinct data and
per-call parameters (stage granularity, one thread; the global dictionary is poisoned in between);
real threads run under a token-passing scheduler installed with sys.settrace that pre-empts at chosen
source lines inside ampycloud/*.py (systematically randomised pre-emption points).  (B) TLC compares,
stage by stage, every chunk with the same scene processed alone (TracePair, kind c13)."""
import json
import random

from .. import framework as fw
from .. import tlc, randscenes

CFG = 'SPECIFICATION Spec\nCONSTANTS\n N = %d\n Stages = %d\nINVARIANT Inv_Isolated\nCHECK_DEADLOCK FALSE\n'


def schedules(n, stages):
    r = tlc.run_tlc('Interleave', CFG % (n, stages), workers=1, timeout=3000)
    if r['violated'] or r['error']:
        raise fw.Machinery(f"Interleave.tla: {r['violated']} {r['error']}")
    sch = [tlc.parse_value(t)[1] for t in tlc.extract_tuples(r['out'], 'S')]
    stats = {'name': f'Interleave(N={n},Stages={stages})', 'module': 'Interleave', 'states': r['distinct'], 'transitions': r['generated'],
             'depth': r['depth'], 'wall_s': round(r['wall_s'], 1), 'schedules': len(sch)}
    return stats, sch


def chunk_descs(rng, n, tag):
    out = []
    for i in range(n):
        d = randscenes.rand_scene(rng, 'tiny' if rng.random() < 0.6 else 'mid', name=f'{tag}:c{i}')
        d.pop('index', None)
        d['prms'].setdefault('MSA', rng.choice([None, 2000, 5000]))
        out.append(d)
    return out


def same_data_descs(rng, n, tag):
    """ the same hits in every chunk, processed with different smoothing (and other) parameters: anything remembered about the hits
    of one chunk must not reach another one """
    d0 = randscenes.rand_scene(rng, 'mid', name=f'{tag}:c0')
    d0.pop('index', None)
    out = []
    for j in range(n):
        d = dict(d0, name=f'{tag}:c{j}', prms=dict(d0['prms']))
        d['prms']['LOWESS'] = {'frac': [0.35, 0.9, 0.6][j % 3], 'it': [3, 1, 2][j % 3]}
        d['prms']['MAX_HITS_OKTA0'] = [0, 3, 1][j % 3]
        out.append(d)
    return out


def multimodal_desc(rng, tag):
    """ a group of four thin sub-layers 200 ft apart: its three-component mixture fit has several local optima, so the
    outcome depends on the generator the fit starts from (a shared generator shows) """
    jit = rng.choice([10, 20, 40])
    base = rng.choice([1900, 900, 3100])
    rows = []
    for i in range(60):
        for k in range(4):
            rows.append(['a', -15.0 * (59 - i), base + 200 * k + rng.randint(-jit, jit), k + 1])
    # one slice, hence one group of four levels
    return {'family': 'F6thr', 'name': tag, 'rows': rows, 'prms': {'SLICING_PRMS': {'distance_threshold': 0.9}}, 'indomain': True}


def prm_sensitive_desc(rng, tag, j):
    """ two thin decks a few hundred feet apart in a chunk whose stage parameters are NOT the defaults: slicing, grouping and
    layering come out differently when another chunk's per-call values are used (every thread gets other values) """
    base = rng.choice([1000, 3000])
    gap = rng.choice([400, 500])
    rows = []
    for i in range(40):
        rows.append(['a', -15.0 * (39 - i), base + rng.randint(-10, 10), 1])
        rows.append(['a', -15.0 * (39 - i), base + gap + rng.randint(-10, 10), 2])
    thr = [0.2, 0.8, 0.5][j % 3]
    prms = {'SLICING_PRMS': {'distance_threshold': thr},
            'GROUPING_PRMS': {'height_pad_perc': [10, 400, 60][j % 3], 'dt_scale_kwargs': {'scale': [180, 100000, 20][j % 3]}},
            'LAYERING_PRMS': {'min_okta_to_split': [2, 9, 0][j % 3], 'gmm_kwargs': {'scores': ['BIC', 'AIC', 'BIC'][j % 3]}},
            'MAX_HITS_OKTA0': [3, 0, 30][j % 3], 'MIN_SEP_VALS': [[250, 1000], [2000, 2000], [0, 0]][j % 3]}
    return {'family': 'F6prm', 'name': tag, 'rows': rows, 'prms': prms, 'indomain': True}


STAGE_FUNCS = ['find_slices', 'find_groups', 'find_layers', '_merge_close_groups', 'metarize', 'metar_msg', '_setup_sligrolay_pdf',
               '_exclude_for_base_height_calc', 'max_hits_per_layer', '__init__', 'prms']


def run(out, tier, seed):
    rng = random.Random(seed + 13)
    mcs = []
    st2, sch2 = schedules(2, 5)
    mcs.append(st2)
    jobs = []
    for k, s in enumerate(sch2):
        jobs.append({'name': f'il2:{k}', 'chunks': (same_data_descs if k % 3 == 0 else chunk_descs)(random.Random(f'C13:{seed}:{k % 12}'), 2, f'il2:{k}'), 'order': s, 'nstages': 5,
                     'edit_global_at': rng.randrange(0, 8)})
    st3, sch3 = schedules(3, 4)
    mcs.append(st3)
    pick = rng.sample(sch3, 300 if tier == 'quick' else 10000)
    for k, s in enumerate(pick):
        jobs.append({'name': f'il3:{k}', 'chunks': (same_data_descs if k % 3 == 0 else chunk_descs)(random.Random(f'C13b:{seed}:{k % 12}'), 3, f'il3:{k}'), 'order': s, 'nstages': 4,
                     'edit_global_at': rng.randrange(0, 9) if k % 2 else None})
    # line-granularity thread schedules
    tjobs = []
    nthr = 64 if tier == 'quick' else 1500
    for k in range(nthr):
        r2 = random.Random(f'C13thr:{seed}:{k}')
        n = 2 if k % 3 else 3
        style = k % 4
        if style == 0:      # a few pre-emptions anywhere
            pre = [sorted(r2.sample(range(1, 2500), r2.randint(1, 3))) for _ in range(n)]
        elif style == 1:    # round robin every M lines
            m = r2.choice([7, 23, 101, 400])
            pre = [list(range(m, 6000, m)) for _ in range(n)]
        elif style == 2:    # dense around a random region
            c0 = r2.randint(1, 2000)
            pre = [list(range(c0, c0 + 60)) for _ in range(n)]
        else:               # many random points
            pre = [sorted(r2.sample(range(1, 4000), 40)) for _ in range(n)]
        chunks = chunk_descs(random.Random(f'C13t:{seed}:{k % 10}'), n, f'thr:{k}')
        job = {'name': f'thr:{k}', 'chunks': chunks, 'nstages': 5, 'preempt': pre}
        if k % 2 == 0:
            # seed-sensitive data in every thread, and every line of the seeding / mixture functions is a pre-emption point
            job['chunks'] = [multimodal_desc(random.Random(f'C13mm:{seed}:{k}:{j}'), f'thr:{k}:mm{j}') for j in range(n)]
            job['hot'] = ['tmp_seed', 'ncomp_from_gmm', 'agglomerative_cluster', 'clusterize'] if k % 4 == 0 else ['tmp_seed']
        tjobs.append(job)
    # per-call stage parameters that differ between the threads, on data that is sensitive to them; every line of the stage
    # methods is a pre-emption point (a value that travels through shared state between two lines is overwritten in between)
    for k in range(16 if tier == 'quick' else 200):
        n = 2 if k % 2 else 3
        r2 = random.Random(f'C13prm:{seed}:{k}')
        off = r2.randrange(3)
        tjobs.append({'name': f'thrp:{k}', 'nstages': 5, 'preempt': [[] for _ in range(n)],
                      'chunks': [prm_sensitive_desc(r2, f'thrp:{k}:p{j}', j + off) for j in range(n)],
                      'hot': STAGE_FUNCS if k % 4 else STAGE_FUNCS[:3]})
    # different data, the SAME clustering parameters in every thread, and every line of the clustering wrappers a pre-emption point:
    # whatever the wrappers keep between two of their lines must belong to the call
    for k in range(12 if tier == 'quick' else 150):
        n = 2 if k % 2 else 3
        chunks = chunk_descs(random.Random(f'C13clu:{seed}:{k}'), n, f'thrc:{k}')
        for d in chunks:
            d['prms'].pop('SLICING_PRMS', None)
            d['prms'].pop('GROUPING_PRMS', None)
        tjobs.append({'name': f'thrc:{k}', 'nstages': 5, 'preempt': [[] for _ in range(n)], 'chunks': chunks,
                      'hot': ['agglomerative_cluster', 'clusterize'] if k % 3 else ['agglomerative_cluster', 'clusterize', 'ncomp_from_gmm', 'best_gmm', 'get_fluffiness']})
    # executed and judged in batches (the recorded pairs of a thorough run do not fit in memory at once)
    work = [('run_interleaving', j) for j in jobs] + [('run_threads', j) for j in tjobs]
    npairs, inexact, switches = 0, 0, 0
    BATCH = 1500
    for b0 in range(0, len(work), BATCH):
        part = work[b0:b0 + BATCH]
        res = fw.pool_map('harness.interleave', 'run_interleaving', [j for f, j in part if f == 'run_interleaving']) + \
            fw.pool_map('harness.interleave', 'run_threads', [j for f, j in part if f == 'run_threads'], chunksize=1)
        bydesc = {j['name']: j for _, j in part}
        prs = []
        for job_pairs in res:
            for p in job_pairs:
                if 'worker_error' in p:
                    raise fw.Machinery(p['worker_error'])
                if 'inexact' in p:
                    inexact += 1
                    continue
                p['tid'] = len(prs) + 1
                p['_desc'] = bydesc[p['name'].rsplit(':chunk', 1)[0]]
                switches += p.get('switches', 0)
                prs.append(p)
        fw.judge_pairs(out, prs, ['C13_'])
        npairs += len(prs)
    out.samples = [{'name': jobs[0]['name'], 'order': jobs[0]['order']}, {'name': tjobs[1]['name'], 'preempt': tjobs[1]['preempt'][0][:10]}]
    out.assumptions = ['pre-emption only at line events inside ampycloud/*.py (third-party code runs atomically); CPython GIL',
                       'the tracer runs without oracle taps in this check (taps use a module-level sink)']
    cov = {'states': sum(m['states'] for m in mcs), 'transitions': sum(m['transitions'] for m in mcs),
           'traces_validated_against_impl': 2 * npairs, 'evaluations': len(jobs) + len(tjobs), 'distinct_nontrivial': len(sch2) + len(pick) + len(tjobs),
           'rule': 'stage granularity: ALL 252 interleavings of 2 chunks x 5 stages' + (' and 10000 of the 34650 of 3 x 4' if tier != 'quick' else ' and 300 of the 34650 of 3 x 4')
                   + f'; line granularity: {len(tjobs)} thread schedules ({switches} forced thread switches); distinct = distinct schedules',
           'mc': mcs, 'forced_switches': switches, 'inexact_skipped': inexact, 'exhaustive': False, 'checker_cmd': f'./check C13 --tier {tier}'}
    if switches < len(tjobs):
        raise fw.Machinery('the thread scheduler forced too few switches')
    return out.finish('model_checking', cov)


def replay(path):
    rp = json.load(open(path))['payload']
    job = rp['desc']
    fn = 'run_threads' if 'preempt' in job else 'run_interleaving'
    res = fw.pool_map('harness.interleave', fn, [job])
    prs = []
    for p in res[0]:
        p['tid'] = len(prs) + 1
        p['_desc'] = job
        prs.append(p)
    out = fw.Outcome('C13', 'quick', 0)
    fw.judge_pairs(out, prs, ['C13_'])
    if out.violations:
        print(f'VIOLATION property=C13 replay={path}')
        return 1
    print('replay: holds')
    return 0
