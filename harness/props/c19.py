"""C19: scalings are order-preserving, invertible and blind to non-detections.
Scaler.tla holds the transcriptions over exact rationals and enumerates the cases; (A) every case is
checked on the transcription (strictly increasing, undo o do = id, [0,1], min_range, continuity at every
step); (B) the same cases go through the real apply_scaling / convert_kwargs and TLC judges the recorded
values (as small rationals) against the property clauses and against the transcription."""
import os
import json
import shutil
import tempfile

from .. import framework as fw
from .. import tlc, fnjobs

CFG = 'SPECIFICATION Spec\nCHECK_DEADLOCK FALSE\n'


def export(tier):
    tmp = tempfile.mkdtemp(prefix='verif_scl_')
    try:
        r = tlc.run_tlc('Scaler', CFG, env={'MODE': 'export', 'TIER': tier, 'OUT_DIR': tmp, 'JOB_FILE': 'none'}, workers=1)
        if r['error'] or r['violated']:
            raise fw.Machinery('Scaler export failed: ' + str(r['error']))
        return json.load(open(os.path.join(tmp, 'cases.json')))
    finally:
        shutil.rmtree(tmp, ignore_errors=True)


def judge(recs, nshards=16):
    n = len(recs)
    jobs = [{'cases': recs[s * n // nshards:(s + 1) * n // nshards]} for s in range(nshards)]
    jobs = [j for j in jobs if j['cases']]
    res = fnjobs.run_jobs(jobs, module='Scaler', extra_env={'MODE': 'judge', 'TIER': 'x', 'OUT_DIR': '/nonexistent'})
    return jobs, res


def run(out, tier, seed):
    cases = export(tier)
    recs = fw.pool_map('harness.fnwork', 'scale_case', cases)
    ninexact = sum(1 for r in recs if r.get('inexact'))
    jobs, results = judge(recs)
    for j, res in zip(jobs, results):
        for clause, keys in res.items():
            if not keys:
                continue
            if clause == 'C19_Model':
                raise fw.Machinery(f'transcription fails its own property on {j["cases"][keys[0] - 1]["c"]}')
            if clause.startswith('I_'):
                out.drift[clause] = out.drift.get(clause, 0) + len(keys)
                continue
            for k in keys[:3]:
                r = j['cases'][k - 1]
                out.violation(clause, 'scaling_case', {'case': r['c'], 'clause': clause}, f"case={json.dumps(r['c'])[:220]} {r['exc']}")
    modes = {}
    for c in cases:
        modes[c['mode']] = modes.get(c['mode'], 0) + 1
    nontriv = sum(1 for c in cases if (c['mode'] == 'st' and len(c['steps']) >= 1) or (c['mode'] == 'mm' and c['minrange'] > 0) or any(q[1] == 0 for q in c['xs']))
    out.samples = [recs[0], recs[len(recs) // 2]['c'], recs[-1]['c']]
    out.assumptions = ['values on a small rational lattice (results representable as fractions with denominators <= 100000 within 1e-9); float rounding elsewhere is outside the reach of the specification',
                       'min_range such that the span is non-zero']
    cov = {'states': 2 * len(jobs), 'transitions': len(jobs), 'entries_judged_by_tlc': len(recs), 'traces_validated_against_impl': len(recs), 'evaluations': len(recs),
           'distinct_nontrivial': nontriv, 'rule': 'every case of Scaler!CaseSet through the transcription and through the real functions; non-trivial = steps present, min_range active or NaN present',
           'by_mode': modes, 'observed_off_lattice_approximated': ninexact, 'exhaustive': True, 'checker_cmd': f'./check C19 --tier {tier}'}
    return out.finish('model_checking', cov)


def replay(path):
    rp = json.load(open(path))['payload']
    recs = fw.pool_map('harness.fnwork', 'scale_case', [rp['case']])
    jobs, results = judge(recs, nshards=1)
    bad = {k: v for k, v in results[0].items() if v and k.startswith('C19_') and k != 'C19_Model'}
    print('case', rp['case'], 'ys', recs[0]['ys'], 'failing', bad)
    if bad:
        print(f'VIOLATION property=C19 replay={path}')
        return 1
    return 0
