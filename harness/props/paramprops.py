"""C11 / C12: the parameter store.  (A) Params.tla explored to a depth bound over a reduced alphabet
(private snapshots, no leak, overlay semantics, equivalence of the three routes, overrides win, reset);
(C) walks over the full alphabet of ParamsOps!Actions (exported by TLC) are executed on the real module:
dynamic.AMPYCLOUD_PRMS, YAML files through set_prms, reset_prms, caller dictionaries, chunk snapshots;
(B) TLC replays every walk: property clauses on the observed states (values AND object identities),
and the specification's own next state as an implementation-level clause."""
import json
import random
import itertools

from .. import framework as fw
from .. import scenes, tlc, pairs as pairgen, randscenes

MC_CFG = '''SPECIFICATION Spec
CONSTANTS
 Acts <- %s
 MaxDepth = %d
VIEW View
CONSTRAINT Bound
INVARIANT Inv_Coherent
INVARIANT Inv_Canonical
INVARIANT Inv_C11_Private
INVARIANT Inv_C12_RoutesEquivalent
INVARIANT Inv_C12_OverridesWin
PROPERTY Prop_C11
PROPERTY Prop_C12
CHECK_DEADLOCK FALSE
'''


def make_walks(tier, seed):
    ex = scenes.export('params', tier, module='ExportParams')
    acts, acts_mc = ex['actions'], ex['actions_mc']
    rng = random.Random(seed + 11)
    walks = []
    pre = [{'op': 'setcaller', 'c': 0, 'u': 1, 'path': '', 'v': 2, 'has': ['sep', 'msa']},
           {'op': 'construct', 'c': 1, 'u': 1, 'path': '', 'v': 0, 'has': []}]
    # every ordered pair of the reduced alphabet after a prefix that builds a chunk from a caller dictionary
    prs = list(itertools.product(acts_mc, repeat=2))
    if tier == 'quick':
        prs = rng.sample(prs, min(500, len(prs)))
    for i, (a, b) in enumerate(prs):
        walks.append({'name': f'pair:{i}', 'actions': pre + [a, b, {'op': 'run', 'c': 1, 'u': 0, 'path': '', 'v': 0, 'has': []}]})
    n = 900 if tier == 'quick' else 15000
    cons = [a for a in acts if a['op'] in ('construct', 'setcaller', 'run')]
    for i in range(n):
        ln = rng.randint(5, 12)
        seq = [rng.choice(cons) if rng.random() < 0.35 else rng.choice(acts) for _ in range(ln)]
        walks.append({'name': f'walk:{i}', 'actions': seq})
    return walks, len(acts)


def run(out, tier, seed, pid):
    depth = 6 if tier == 'quick' else 8
    mcs = [fw.mc_run(f'{pid}:params', 'Params', MC_CFG % ('ActionsMC', depth), coverage=(tier == 'thorough'))]
    if tier == 'thorough':
        mcs.append(fw.mc_run(f'{pid}:params-full-alphabet', 'Params', MC_CFG % ('Actions', 3)))
    walks, nacts = make_walks(tier, seed)
    recs = fw.pool_map('harness.paramwork', 'params_walk', walks)
    recs = [r for r in recs if r['events']]
    for i, r in enumerate(recs):
        r['tid'] = i + 1
    verdicts, stats = tlc.validate_traces(recs, module='TraceParams')
    marks = {}
    sigs = set()
    for r in recs:
        allm = set()
        for step, fails, ms in sorted(verdicts[r['tid']]):
            allm.update(ms)
            for c in fails:
                if c.startswith('I_'):
                    out.drift[c] = out.drift.get(c, 0) + 1
                elif c.startswith(pid + '_'):
                    out.violation(c, 'param_walk', {'walk': {'name': r['name'], 'actions': [e['a'] for e in r['events'][:step]]}, 'clause': c, 'step': step},
                                  f"walk={r['name']} step={step} action={json.dumps(r['events'][step - 1]['a'])} {r['events'][step - 1]['exc']}")
                else:
                    out.other[c] = out.other.get(c, 0) + 1
        for m in allm:
            marks[m] = marks.get(m, 0) + 1
        sigs.add(tuple(e['a']['op'] for e in r['events']))
    out.marks = marks
    extra = {}
    if pid == 'C12':
        extra = route_scenes(out, tier, seed)
        extra.update(prmfile_cases(out))
    out.samples = [{'name': r['name'], 'actions': [e['a'] for e in r['events']][:6]} for r in recs[:2]]
    out.assumptions = ['representative schema of four paths (top scalar, top list, depth-2 scalar, depth-3 scalar) mapped to MSA, MIN_SEP_VALS, SLICING_PRMS.distance_threshold, '
                       'SLICING_PRMS.height_scale_kwargs.min_range; all other leaves are watched through a digest',
                       'CallerLeafAliasing (a per-call list is stored by reference) is modelled as the code does it; the property does not forbid it']
    cov = {'states': sum(m['states'] for m in mcs), 'transitions': sum(m['transitions'] for m in mcs),
           'traces_validated_against_impl': len(recs) + extra.get('pairs', 0) * 2, 'evaluations': len(recs) + extra.get('pairs', 0),
           'distinct_nontrivial': len(sigs), 'rule': 'one evaluation = one walk over ParamsOps!Actions executed on the real module and replayed by TLC; distinct = distinct operation sequences',
           'mc': mcs, 'alphabet': nacts, 'walk_steps': sum(len(r['events']) for r in recs), 'exhaustive': False,
           'checker_cmd': f'./check {pid} --tier {tier}'}
    cov.update(extra)
    return out.finish('model_checking', cov)


# ------------------------------------------------------------------------------------------------
# C12 at pipeline level: the three routes give identical RESULTS; stages read the snapshot only
# ------------------------------------------------------------------------------------------------
def route_scenes(out, tier, seed):
    n = 120 if tier == 'quick' else 1500
    pds = []
    for i in range(n):
        rng = random.Random(f'C12route:{seed}:{i}')
        base = randscenes.rand_scene(rng, 'tiny' if rng.random() < 0.7 else 'mid', name=f'C12base-{seed}-{i}')
        base.pop('index', None)
        prms = base['prms']
        for kind in ('global', 'yaml', 'poison'):
            b = dict(base)
            if kind == 'global':
                b = dict(base, prms={}, gprms=prms)
            elif kind == 'yaml':
                b = dict(base, prms={}, yprms=prms)
            else:
                b = dict(base, poison=True)
            pds.append({'kind': 'c12', 'name': f'c12:{kind}:{seed}:{i}', 'a': base, 'b': b})
    prs, inexact = fw.run_pairs(pds)
    fw.judge_pairs(out, prs, ['C12_'])
    return {'pairs': len(prs), 'route_pairs_inexact': len(inexact)}


def prmfile_cases(out):
    """ the parameter-file entry points against the decision tables of spec/PrmFiles.tla (implementation level) """
    import os, shutil, tempfile
    from .. import fnjobs
    tmp = tempfile.mkdtemp(prefix='verif_pf_')
    try:
        r = tlc.run_tlc('PrmFiles', 'SPECIFICATION Spec\nCHECK_DEADLOCK FALSE\n', env={'MODE': 'export', 'OUT_DIR': tmp, 'JOB_FILE': 'none'}, workers=1)
        if r['error'] or r['violated']:
            raise fw.Machinery('PrmFiles export failed: ' + str(r['error']))
        cases = json.load(open(os.path.join(tmp, 'cases.json')))
    finally:
        shutil.rmtree(tmp, ignore_errors=True)
    recs = fw.pool_map('harness.paramwork', 'prmfile_case', cases)
    res = fnjobs.run_jobs([{'cases': recs}], module='PrmFiles', extra_env={'MODE': 'judge', 'OUT_DIR': '/nonexistent'})[0]
    for clause, keys in res.items():
        if clause.startswith('I_') and keys:
            out.drift[clause] = out.drift.get(clause, 0) + len(keys)
            out.notes.append({clause: [recs[k - 1]['c'] for k in keys[:3]]})
    return {'prmfile_cases': len(cases)}


def replay(pid, path):
    rp = json.load(open(path))
    if rp['kind'] == 'pair':
        out = fw.Outcome(pid, 'quick', 0)
        prs, _ = fw.run_pairs([rp['payload']['desc']])
        fw.judge_pairs(out, prs, [pid + '_'])
        if out.violations:
            print(f'VIOLATION property={pid} replay={path}')
            return 1
        return 0
    recs = fw.pool_map('harness.paramwork', 'params_walk', [rp['payload']['walk']])
    recs[0]['tid'] = 1
    verdicts, _ = tlc.validate_traces(recs, module='TraceParams', shards=1)
    bad = []
    for step, fails, ms in sorted(verdicts[1]):
        print(step, recs[0]['events'][step - 1]['a'], fails)
        bad += [c for c in fails if c.startswith(pid + '_')]
    if bad:
        print(f'VIOLATION property={pid} replay={path}')
        return 1
    return 0
