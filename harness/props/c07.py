from . import pairprops


def run(out, tier, seed):
    return pairprops.run(out, tier, seed, 'C07')


def replay(path):
    return pairprops.replay('C07', path)
