from . import chunkprops


def run(out, tier, seed):
    return chunkprops.run_plan(out, tier, seed, 'C02')


def replay(path):
    return chunkprops.replay('C02', path)
