"""C20: diagnostic plotting is total and free of side effects.
The frame conditions of the action Plot(c, opts) are in TracePlots.tla; sessions of plot calls (several
per process, Agg backend) over classes of processed chunks (no hits, a single hit, one row, zero-okta
layers, VV hits, more layers / slices than marker styles, a chunk left empty by the cropping, ...) x upto
x show_ceilos x reference-METAR arguments x save formats are executed and TLC judges every call.
Totality of matplotlib cannot be model-checked: the level claimed is exploration."""
import json
import random

from .. import framework as fw
from .. import tlc
from .. import plotwork

UPTO = ['raw_data', 'slices', 'groups', 'layers']


def make_sessions(seed, nsess, ncalls):
    rng = random.Random(seed + 20)
    out = []
    combos = [(c, u) for c in plotwork.CLASSES for u in UPTO]
    rng.shuffle(combos)
    k = 0
    for s in range(nsess):
        calls = []
        for _ in range(ncalls):
            cls, upto = combos[k % len(combos)]
            k += 1
            save = rng.random() < 0.5
            calls.append({'cls': cls, 'upto': upto, 'var': rng.randrange(3), 'glob': rng.choice([None, None, None, 'run', 'plot']), 'show': rng.random() < 0.12, 'show_ceilos': rng.random() < 0.5,
                          'ref': rng.choice([None, None, 'FEW010 BKN030', '']), 'origin': rng.choice([None, 'manual obs']),
                          'save': save, 'stemsuffix': rng.choice(['', '', '_a', '.v1.2', '_2024.01.31', '.x']), 'fmts': rng.choice([None, 'png', ['png'], ['png', 'pdf'], ['pdf'], []]) if save else None})
        out.append({'name': f'plots:{s}', 'seed': seed * 1000 + s, 'calls': calls})
    return out


def run(out, tier, seed):
    nsess, ncalls = (32, 12) if tier == 'quick' else (320, 20)
    sessions = make_sessions(seed, nsess, ncalls)
    recs = fw.pool_map('harness.plotwork', 'plot_session', sessions, chunksize=1)
    for i, r in enumerate(recs):
        r['tid'] = i + 1
    verdicts, stats = tlc.validate_traces(recs, module='TracePlots')
    marks, sigs = {}, set()
    for r in recs:
        for step, fails, ms in sorted(verdicts[r['tid']]):
            e = r['events'][step - 1]
            sigs.add((e['cls'], e['upto'], e['show_ceilos'], e['hasstem'], e['hasref']))
            for m in ms:
                marks[m] = marks.get(m, 0) + 1
            for c in fails:
                if c.startswith('C20_'):
                    sess = sessions[r['tid'] - 1]
                    out.violation(c, 'plot_session', {'session': {'name': sess['name'], 'seed': sess['seed'], 'calls': sess['calls'][:step]}, 'clause': c, 'step': step},
                                  f"session={r['name']} step={step} class={e['cls']} upto={e['upto']} {e['exc']}")
    out.marks = marks
    out.samples = [{'call': sessions[0]['calls'][0], 'observed': {k: v for k, v in recs[0]['events'][0].items() if k in ('exc', 'newfiles', 'figs_after', 'rc_changed')}}]
    out.assumptions = ['matplotlib Agg backend; MPL_STYLE base (the latex styles need a system LaTeX, absent here)']
    n = sum(len(r['events']) for r in recs)
    cov = {'evaluations': n, 'distinct_nontrivial': len(sigs), 'traces_validated_against_impl': len(recs),
           'rule': 'one evaluation = one diagnostic() call inside a session; distinct = distinct (chunk class, upto, show_ceilos, saving, reference METAR)',
           'classes': plotwork.CLASSES, 'checker_cmd': f'./check C20 --tier {tier}'}
    return out.finish('exploration', cov)


def replay(path):
    rp = json.load(open(path))['payload']
    recs = fw.pool_map('harness.plotwork', 'plot_session', [rp['session']])
    recs[0]['tid'] = 1
    verdicts, _ = tlc.validate_traces(recs, module='TracePlots', shards=1)
    bad = [c for _, f, _ in verdicts[1] for c in f if c.startswith('C20_')]
    print('failing', bad, [e['exc'] for e in recs[0]['events']])
    if bad:
        print(f'VIOLATION property=C20 replay={path}')
        return 1
    return 0
