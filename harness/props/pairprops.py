"""C07, C10, C16: relational properties.  (A) MC_Pair.tla on the frames of an MC_Chunk instance;
(B) pairs of real executions on related inputs replayed in lock-step by TLC (TracePair.tla); the single
runs are also judged by TraceChunk (C07_Flag, C07_Kept, C07_NoMsa and the implementation-level clauses)."""
import json

from .. import framework as fw
from .. import pairs as pairgen
from .. import mcconf, tlc

PLAN = {
    'C07': {'gen': pairgen.c07_pairs, 'n': {'quick': 700, 'thorough': 12000}, 'prefix': ['C07_'],
            'inv': ['Inv_C07_CropInvariant', 'Inv_C07_Blanked'], 'prmset': {'quick': 'PrmMsaQ', 'thorough': 'PrmMsa'},
            'marks': ['N_crop', 'N_cropdrop', 'N_atlimit', 'N_flag']},
    'C10': {'gen': pairgen.c10_pairs, 'n': {'quick': 700, 'thorough': 12000}, 'prefix': ['C10_'],
            'inv': ['Inv_C10_UniqueLabels'], 'prmset': {'quick': 'PrmMsaQ', 'thorough': 'PrmMsa'},
            'marks': ['N_crop', 'N_rows', 'N_split']},
    'C16': {'gen': pairgen.c16_pairs, 'n': {'quick': 700, 'thorough': 12000}, 'prefix': ['C16_'],
            'inv': ['Inv_C16_Tables'], 'prmset': {'quick': 'PrmBaseQ', 'thorough': 'PrmBase'},
            'marks': ['N_excl', 'N_lookback', 'N_rows']},
}


def pair_cfg(invs, prmset, ceilos, nt, maxper=2):
    base = mcconf.chunk_cfg(invs, prmset=prmset, ceilos=ceilos, nt=nt, maxper=maxper)
    base = base.replace('SPECIFICATION Spec', 'SPECIFICATION PairSpec')
    return base.replace('INVARIANT', ' NewHeights = {1300, 5000, 9000}\n NewNames = {"a", "b", "10", "9"}\nINVARIANT', 1)


def run(out, tier, seed, pid):
    plan = PLAN[pid]
    mcs = []
    if tier == 'quick':
        confs = [(('a', 'b') if pid == 'C16' else ('a',), 2 if pid == 'C16' else 3, 1 if pid == 'C16' else 2)]
    else:
        confs = [(('a', 'b'), 2, 2)] + ([(('a',), 3, 2)] if pid != 'C16' else [])
    for ceilos, nt, maxper in confs:
        mcs.append(fw.mc_run(f'{pid}:pair', 'MC_Pair', pair_cfg(plan['inv'], plan['prmset'][tier], ceilos, nt, maxper), coverage=(tier == 'thorough')))
    if pid == 'C10':
        # sensitivity: selection through the caller's labels (pinned tree) breaks with repeated labels
        s = fw.mc_run('C10:labels-pinned', 'MC_Pair', pair_cfg(['Inv_C10_AnyLabels'], 'PrmMsaQ', ('a',), 2), expect_violation='Inv_C10_AnyLabels')
        mcs[0]['sensitivity'] = {'label_based_selection_violates': s['violated']}
    pds = plan['gen'](seed, plan['n'][tier])
    prs, inexact = fw.run_pairs(pds)
    verdicts, stats = fw.judge_pairs(out, prs, plan['prefix'])
    # the single runs, judged by the chunk trace spec
    singles = []
    for p in prs:
        for side in ('a', 'b'):
            t = dict(p[side])
            t['tid'] = len(singles) + 1
            t['_desc'] = p['_desc'][side]
            t.setdefault('canon', {'has': False, 'ng': 'zero', 'merged': False, 'split': False,
                                   'tbl': {'slices': [], 'groups': [], 'layers': []}, 'msg': {'slices': [], 'groups': [], 'layers': []},
                                   'ids': {'s': [], 'g': [], 'l': []}})
            singles.append(t)
    if pid == 'C07':
        # "with no MSA nothing is cropped": no MSA requested per call while the global dictionary holds one
        import random as _r
        from .. import randscenes as _rs
        extra = []
        for i in range(60 if tier == 'quick' else 1000):
            rng = _r.Random(f'C07nomsa:{seed}:{i}')
            d = _rs.rand_scene(rng, 'tiny', name=f'nomsa:{seed}:{i}')
            d['prms']['MSA'] = None
            d['gprms'] = {'MSA': rng.choice([0, 500, 1000, 3000]), 'MSA_HIT_BUFFER': rng.choice([0, 1500])}
            d['nomsa'] = True
            extra.append(d)
        etr, _ = fw.run_scenarios(extra)
        for t in etr:
            t['tid'] = len(singles) + 1
            singles.append(t)
        fw.judge_traces(out, singles, plan['prefix'])
    rel = set(plan['marks'])
    sigs = set()
    for tid, vs in verdicts.items():
        ms = set()
        for _, _, m in vs:
            ms.update(m)
        if ms & rel:
            sigs.add((tuple(sorted(ms)), prs[tid - 1]['kind'], len(prs[tid - 1]['a']['events'][-1]['tbl']['layers'])))
    out.samples = [{'kind': p['kind'], 'name': p['name'], 'rows_a': p['_desc']['a']['rows'][:5], 'rows_b': p['_desc']['b']['rows'][:5],
                    'index_b': p['_desc']['b'].get('index'), 'layout_b': p['_desc']['b'].get('layout'), 'rho': p.get('rho')} for p in prs[:3]]
    out.assumptions = ['integer heights; the twin input is produced by the driver and its relation to the base is re-checked by TLC (X_Premise)',
                       'tables are compared field by field, floats through scaled integers plus a digest of their bit patterns']
    cov = {'states': sum(m['states'] for m in mcs), 'transitions': sum(m['transitions'] for m in mcs),
           'traces_validated_against_impl': 2 * len(prs), 'evaluations': len(prs), 'distinct_nontrivial': len(sigs),
           'rule': 'one evaluation = a pair of executions on related inputs replayed in lock-step by TLC; non-trivial = ' + ', '.join(plan['marks'])
                   + '; distinct = distinct (situations, kind, number of layers) signatures',
           'mc': mcs, 'inexact_skipped': len(inexact), 'exhaustive': False, 'checker_cmd': f'./check {pid} --tier {tier}'}
    return out.finish('model_checking', cov)


def replay(pid, path):
    rp = json.load(open(path))
    if rp['kind'] != 'pair':
        from . import chunkprops
        return chunkprops.replay(pid, path)
    pd_ = rp['payload']['desc']
    out = fw.Outcome(pid, 'quick', 0)
    prs, inexact = fw.run_pairs([pd_])
    if not prs:
        print('replay: not representable', inexact)
        return 2
    verdicts, _ = fw.judge_pairs(out, prs, PLAN[pid]['prefix'])
    for step, fails, marks in sorted(verdicts[1]):
        print(f'step {step} failing={fails}')
    if out.violations:
        print(f'VIOLATION property={pid} replay={path}')
        return 1
    print('replay: property clauses hold')
    return 0
