"""C15: input screening rejects exactly the documented conditions and normalises the rest.
Screening.tla enumerates abstract frames (all multisets of up to 2|3 rows over a 32-value row domain x
dtype variants x superfluous columns, frames lacking each required column, non-DataFrame objects);
the driver builds each one, calls the real check_data_consistency (twice for accepted frames) and TLC
judges the recorded outcome table: raised <=> Rejects(frame), AmpycloudError only, four columns,
dtypes, values, argument untouched, idempotent re-check without column/dtype warning."""
import os
import json
import shutil
import tempfile

from .. import framework as fw
from .. import tlc, fnjobs

CFG = 'SPECIFICATION Spec\nCHECK_DEADLOCK FALSE\n'


def export(tier):
    tmp = tempfile.mkdtemp(prefix='verif_scr_')
    try:
        r = tlc.run_tlc('Screening', CFG, env={'MODE': 'export', 'TIER': tier, 'OUT_DIR': tmp, 'JOB_FILE': 'none'}, workers=1)
        if r['error'] or r['violated']:
            raise fw.Machinery('Screening export failed: ' + str(r['error']))
        return json.load(open(os.path.join(tmp, 'frames.json')))
    finally:
        shutil.rmtree(tmp, ignore_errors=True)


def judge(cases, nshards=16):
    jobs = []
    n = len(cases)
    for s in range(nshards):
        part = cases[s * n // nshards:(s + 1) * n // nshards]
        if part:
            jobs.append({'kind': 'c15', 'lo': 0, 'hi': 0, 'cases': part, '_off': s * n // nshards})
    res = fnjobs.run_jobs([{k: v for k, v in j.items() if k != '_off'} for j in jobs], module='Screening', extra_env={'MODE': 'judge', 'TIER': 'x', 'OUT_DIR': '/nonexistent'})
    return jobs, res


def run(out, tier, seed):
    frames = export(tier)
    cases = fw.pool_map('harness.fnwork', 'screen_case', frames)
    jobs, results = judge(cases)
    nrej = nalone = 0
    for j, res in zip(jobs, results):
        for clause, keys in res.items():
            if clause == 'N_rejected':
                nrej += len(keys)
                continue
            if clause == 'N_alone':
                nalone += len(keys)
                continue
            for k in keys[:3]:
                c = j['cases'][k - 1]
                out.violation(clause, 'screening_case', {'frame': c['f'], 'clause': clause},
                              f"frame={json.dumps(c['f'])[:200]} res={c['res']} {c['exc']}")
            if len(keys) > 3:
                out.violations += [(clause, out.violations[-1][1], '...')] * (len(keys) - 3)
    out.samples = [{'frame': cases[i]['f'], 'res': cases[i]['res'], 'exc': cases[i]['exc']} for i in (0, len(cases) // 2, len(cases) - 1)]
    out.assumptions = ['values coercible to the required dtypes; duplicates judged on the four required columns after coercion',
                       'the expected normalised values are pandas astype() of the argument; the abstract frame and its concretisation are tied by the driver']
    cov = {'states': 2 * len(jobs), 'transitions': len(jobs), 'entries_judged_by_tlc': len(cases), 'traces_validated_against_impl': len(cases),
           'evaluations': len(cases), 'distinct_nontrivial': nrej,
           'rule': 'every abstract frame enumerated by Screening!Frames is built and screened by the real function; non-trivial = frames that must be rejected '
                   f'({nalone} of them for exactly one of the six documented reasons)',
           'rejected_for_one_reason_only': nalone, 'exhaustive': True, 'checker_cmd': f'./check C15 --tier {tier}'}
    return out.finish('model_checking', cov)


def replay(path):
    rp = json.load(open(path))['payload']
    cases = fw.pool_map('harness.fnwork', 'screen_case', [rp['frame']])
    jobs, results = judge(cases, nshards=1)
    bad = {k: v for k, v in results[0].items() if v and k.startswith('C15_')}
    print('case', cases[0]['res'], cases[0]['exc'], cases[0]['o'], 'failing', bad)
    if bad:
        print(f'VIOLATION property=C15 replay={path}')
        return 1
    return 0
