"""Tracer: runs the real ampycloud code and records, after every public call, the projected
abstract state (integers / booleans / short strings only -- TLC's Json module truncates floats
and rejects null) plus the outputs of the numerical oracles.

Nothing in /repo is edited: the public calls and the oracle functions are wrapped at run time,
inside harness worker processes only (guard: AMPYCLOUD_VERIF=1).
"""
import os
import sys
import math
import warnings
import traceback
from fractions import Fraction

REPO = os.environ.get('VERIF_REPO', '/repo')
if os.path.join(REPO, 'src') not in sys.path:
    sys.path.insert(0, os.path.join(REPO, 'src'))

for _v in ('OMP_NUM_THREADS', 'OPENBLAS_NUM_THREADS', 'MKL_NUM_THREADS'):
    os.environ.setdefault(_v, '1')
os.environ.setdefault('MPLBACKEND', 'Agg')

import numpy as np  # noqa: E402
import pandas as pd  # noqa: E402

NAN_H = -1000000      # spec/Num.tla NaNH: the height of a non-detection in projected rows


class Inexact(Exception):
    """ A value that the integer projection cannot represent (machinery limit, not a verdict). """


def _guard():
    if os.environ.get('AMPYCLOUD_VERIF') != '1':
        raise RuntimeError('tracer used without AMPYCLOUD_VERIF=1')


_installed = False
_taps = None      # current tap sink (dict of lists) or None
_depth = 0


def chars(s):
    return [ord(ch) for ch in s]


def fnum(x, scale):
    """ float -> {'v': scaled integer, 'd': sign(float - v/scale)} """
    if x is None or (isinstance(x, float) and (math.isnan(x) or math.isinf(x))) or pd.isna(x):
        return {'v': -999999, 'd': 0}
    xf = float(x)
    v = int(round(xf * scale))          # an observed value off the lattice is not refused: the clauses will not find it admissible
    dev = Fraction(xf) - Fraction(v, scale)
    return {'v': v, 'd': (dev > 0) - (dev < 0)}


def iround(x, scale):
    try:
        xf = float(x)
        if math.isnan(xf) or math.isinf(xf):
            return -999999
        return int(round(xf * scale))
    except Exception:
        return -999999


def hint(h, strict=True):
    """ integer feet, -1 for NaN. strict (inputs): a value off the integer lattice makes the scenario inexact;
    not strict (observed state): it is projected to a sentinel that no specification value equals """
    if h is None or (isinstance(h, float) and math.isnan(h)) or pd.isna(h):
        return NAN_H
    try:
        hf = float(h)
    except Exception:
        if strict:
            raise Inexact(f'height {h!r}')
        return NAN_H - 9
    if hf != round(hf) or math.isinf(hf):
        if strict:
            raise Inexact(f'non-integer height {h!r}')
        return NAN_H - 7
    if abs(hf) >= 100000:
        if strict:
            raise Inexact(f'height {h!r} outside (-100000, 100000)')
        return NAN_H - 8
    return int(hf)


def install():
    """ Wrap public calls and oracle functions (idempotent). """
    global _installed
    _guard()
    if _installed:
        return
    import ampycloud
    from ampycloud import cluster, layer, fluffer, data as adata
    from ampycloud.utils import utils as autils

    def tap(name, val):
        if _taps is not None:
            _taps.setdefault(name, []).append(val)

    orig_clusterize = cluster.clusterize

    def clusterize(*a, **k):
        out = orig_clusterize(*a, **k)
        try:
            tap('clu', [int(x) for x in out[1]])
        except Exception:   # pragma: no cover
            pass
        return out
    cluster.clusterize = clusterize

    orig_best = layer.best_gmm

    def best_gmm(*a, **k):
        out = orig_best(*a, **k)
        tap('best', int(out))
        try:
            ab = [float(x) for x in (a[0] if a else k['abics'])]
            mode = k.get('mode', a[1] if len(a) > 1 else 'delta')
            gain = float(k.get('delta_mul_gain', 1.))
            tap('bestargs', {'ab10': [iround(x, 10) for x in ab], 'gain100': iround(gain, 100), 'mode': str(mode), 'best': int(out),
                             'exact': abs(gain * 100 - round(gain * 100)) < 1e-9 and all(abs(x) < 1e7 for x in ab)})
        except Exception:
            pass
        return out
    layer.best_gmm = best_gmm

    orig_ncomp = layer.ncomp_from_gmm

    def ncomp_from_gmm(*a, **k):
        nb = len(_taps.get('best', [])) if _taps is not None else 0
        out = orig_ncomp(*a, **k)
        try:
            raw = (_taps['best'][-1] + 1) if (_taps is not None and len(_taps.get('best', [])) > nb) else 1
            vals = np.asarray(a[0] if a else k['vals']).flatten()
            hl = sorted({(hint(h), int(lab)) for h, lab in zip(vals, out[1])})
            ba = _taps['bestargs'][-1] if (_taps is not None and len(_taps.get('best', [])) > nb and _taps.get('bestargs')) else \
                {'ab10': [], 'gain100': 100, 'mode': 'none', 'best': 0, 'exact': False}
            tap('gmm', {'nfin': int(out[0]), 'nraw': int(raw), 'hl': [list(x) for x in hl],
                        'nmax': int(k.get('ncomp_max', 3)), 'sel': ba})
        except Exception:   # pragma: no cover
            pass
        return out
    layer.ncomp_from_gmm = ncomp_from_gmm

    orig_merge = adata.CeiloChunk._merge_close_groups

    def _merge_close_groups(self):
        try:
            tap('g0', [int(x) for x in self.data['group_id']])
        except Exception:
            pass
        out = orig_merge(self)
        try:
            tap('g1', [int(x) for x in self.data['group_id']])
        except Exception:
            pass
        return out
    adata.CeiloChunk._merge_close_groups = _merge_close_groups

    orig_cbh = autils.calc_base_height

    def calc_base_height(vals, lookback_perc, height_perc):
        out = orig_cbh(vals, lookback_perc, height_perc)
        if _taps is not None and _taps.get('_cbh_on'):
            try:
                tap('cbh', {'vals': [hint(x) for x in np.asarray(vals).flatten()],
                            'lb': int(lookback_perc), 'p': int(height_perc), 'res': fnum(out, 100)})
            except Exception:
                pass
        return out
    autils.calc_base_height = calc_base_height
    _installed = True


# ------------------------------------------------------------------------------------------------
# projections
# ------------------------------------------------------------------------------------------------
def requested_prms(percall):
    """ the parameters the user asked for: the global dictionary as it is when the chunk is created, overlaid with the per-call
    dictionary (the documented meaning of a nested partial assignment). The specification is bound to THESE values, not to what
    the chunk says it holds. """
    import copy
    from ampycloud import dynamic

    def overlay(ref, new):
        for k, v in new.items():
            if isinstance(v, dict) and isinstance(ref.get(k), dict):
                overlay(ref[k], v)
            else:
                ref[k] = v
        return ref
    return overlay(copy.deepcopy(dynamic.AMPYCLOUD_PRMS), copy.deepcopy(percall or {}))


def project_prms(prms):
    """ chunk.prms -> the integer parameter record of the specification """
    def need_int(x, nm):
        if isinstance(x, bool) or x is None:
            raise Inexact(f'{nm}={x!r}')
        if float(x) != round(float(x)):
            raise Inexact(f'{nm}={x!r} not an integer')
        return int(round(float(x)))
    msa = prms['MSA']
    out = {
        'hasmsa': msa is not None,
        'msa': need_int(msa, 'MSA') if msa is not None else 0,
        'buf': need_int(prms['MSA_HIT_BUFFER'], 'MSA_HIT_BUFFER'),
        'h0': need_int(prms['MAX_HITS_OKTA0'], 'MAX_HITS_OKTA0'),
        'h8': need_int(prms['MAX_HOLES_OKTA8'], 'MAX_HOLES_OKTA8'),
        'p': need_int(prms['BASE_LVL_HEIGHT_PERC'], 'BASE_LVL_HEIGHT_PERC'),
        'lb': need_int(prms['BASE_LVL_LOOKBACK_PERC'], 'BASE_LVL_LOOKBACK_PERC'),
        'excl': [str(x) for x in prms['EXCLUDE_FOR_BASE_HEIGHT_CALC']],
        'sepv': [need_int(x, 'MIN_SEP_VALS') for x in prms['MIN_SEP_VALS']],
        'sepl': [need_int(x, 'MIN_SEP_LIMS') for x in prms['MIN_SEP_LIMS']],
        'minokta': need_int(prms['LAYERING_PRMS']['min_okta_to_split'], 'min_okta_to_split'),
        'minpts': 30,
        'pad': pad_of(prms),
    }
    return out


def pad_of(prms):
    try:
        x = prms['GROUPING_PRMS']['height_pad_perc']
        return int(x) if float(x) == int(x) and x >= 0 else -1
    except Exception:
        return -1


def dt_ranks(dts):
    vals = sorted({float(x) for x in dts})
    return {v: i + 1 for i, v in enumerate(vals)}


def project_rows(frame, ranks, strict=True):
    rows = []
    cs = frame['ceilo'].tolist()
    ts = frame['dt'].tolist()
    hs = frame['height'].tolist()
    ks = frame['type'].tolist()
    for c, t, h, k in zip(cs, ts, hs, ks):
        try:
            tt = ranks[float(t)]
        except Exception:
            if strict:
                raise Inexact(f'dt {t!r}')
            tt = 0                      # a time stamp that is not one of the input's
        try:
            kk = int(k)
        except Exception:
            if strict:
                raise Inexact(f'type {k!r}')
            kk = -99
        rows.append({'c': str(c), 't': tt, 'h': hint(h, strict), 'k': kk})
    return rows


WHICH = ('slices', 'groups', 'layers')
FLD = {'slices': 's', 'groups': 'g', 'layers': 'l'}
COL = {'s': 'slice_id', 'g': 'group_id', 'l': 'layer_id'}


FLOATCOLS = ['perc', 'height_base', 'height_mean', 'height_std', 'height_min', 'height_max', 'thickness', 'fluffiness']


def bits_digest(vals):
    """ 30-bit digest of the exact bit patterns of floats (bit-for-bit comparisons in TLC) """
    import struct
    import zlib
    return zlib.crc32(b''.join(struct.pack('<d', float(v)) for v in vals)) & 0x3fffffff


def project_table(tb, which):
    rows = []
    if tb is None:
        return rows
    for i in range(len(tb)):
        r = tb.iloc[i]
        fl = r['fluffiness']
        try:
            flf = float(fl)
        except Exception:
            flf = float('nan')
        fk = 1 if math.isnan(flf) else (2 if math.isinf(flf) else 0)
        std = float(r['height_std'])
        row = {
            'cid': int(r['cluster_id']),
            'n': int(r['n_hits']),
            'perc4': iround(r['perc'], 10000),
            'okta': int(r['okta']),
            'b': fnum(r['height_base'], 100),
            'hmin': hint(r['height_min'], False),
            'hmax': hint(r['height_max'], False),
            'thick': hint(r['thickness'], False),
            'mean1000': iround(r['height_mean'], 1000),
            'std10': -1 if math.isnan(std) else iround(std, 10),
            'fk': fk,
            'f100': min(iround(flf, 100), 2000000000) if fk == 0 else 0,   # capped: TLC integers are 32 bit
            'code': chars(str(r['code'])),
            'sig': bool(r['significant']),
            'hx': bits_digest([r[c] for c in FLOATCOLS]),
        }
        if which == 'slices':
            iso = r['isolated']
            row['x'] = 2 if iso is None or (isinstance(iso, float) and math.isnan(iso)) else int(bool(iso))
        elif which == 'groups':
            row['x'] = int(r['ncomp'])
        else:
            row['x'] = 0
        rows.append(row)
    return rows


def snapshot(chunk, ranks):
    """ Full projected state of a chunk. """
    d = chunk.data
    snap = {'data': project_rows(d, ranks, strict=False), 'flag': bool(chunk.clouds_above_msa_buffer),
            'has': {}, 'ids': {}, 'hast': {}, 'tbl': {}, 'nrep': {}}
    for w in WHICH:
        f = FLD[w]
        col = COL[f]
        if col in d.columns:
            snap['has'][f] = True
            snap['ids'][f] = [(-2 if pd.isna(x) else int(x)) for x in d[col].tolist()]
            n = getattr(chunk, f'n_{w}')
            snap['nrep'][w] = -1 if n is None else int(n)
        else:
            snap['has'][f] = False
            snap['ids'][f] = []
            snap['nrep'][w] = -1
        tb = getattr(chunk, w)
        snap['hast'][w] = tb is not None
        snap['tbl'][w] = project_table(tb, w)
    return snap


EMPTY_SNAP = {'data': [], 'flag': False, 'has': {'s': False, 'g': False, 'l': False},
              'ids': {'s': [], 'g': [], 'l': []}, 'hast': {w: False for w in WHICH},
              'tbl': {w: [] for w in WHICH}, 'nrep': {w: -1 for w in WHICH}}


def check_int_range(x):
    """ TLC integers are 32 bit and its Json module mangles larger ones: observed values are clamped (in place) """
    lim = 2000000000
    if isinstance(x, dict):
        for k, v in x.items():
            if isinstance(v, int) and not isinstance(v, bool) and abs(v) > lim:
                x[k] = lim if v > 0 else -lim
            else:
                check_int_range(v)
    elif isinstance(x, list):
        for i, v in enumerate(x):
            if isinstance(v, int) and not isinstance(v, bool) and abs(v) > lim:
                x[i] = lim if v > 0 else -lim
            else:
                check_int_range(v)


def exc_name(e):
    return type(e).__name__


def build_frame(desc):
    """ scenario descriptor -> pandas DataFrame (plain RangeIndex unless desc says otherwise) """
    rows = desc['rows']
    df = pd.DataFrame({
        'ceilo': [str(r[0]) for r in rows],
        'dt': [float(r[1]) + 0.0 for r in rows],          # -0.0 + 0.0 = 0.0: the latest time prints as '0.0', as in real data
        'height': [float('nan') if r[2] is None else float(r[2]) for r in rows],
        'type': [int(r[3]) for r in rows],
    })
    df['ceilo'] = df['ceilo'].astype(pd.StringDtype())
    df['type'] = df['type'].astype(int)
    df = relabel(df, desc.get('index'), [str(r[0]) for r in rows])
    return layout(df, desc.get('layout'))


def layout(df, lay):
    """ layout / dtype variants carrying the same values: column order, superfluous columns, coercible dtypes """
    if not lay:
        return df
    if lay.get('dtypes'):
        for col, dt in lay['dtypes'].items():
            if dt == 'object':
                df[col] = df[col].astype(object)
            elif dt == 'str':
                df[col] = df[col].astype(str)
            elif dt == 'int_if_exact':
                if df[col].notna().all() and (df[col] == df[col].round()).all():
                    df[col] = df[col].astype(int)
            else:
                df[col] = df[col].astype(dt)
    if lay.get('extra') == 'dup':
        # two columns of the caller's own under the same label, and a column of per-hit arrays
        df.insert(len(df.columns), 'note', 1)
        df.insert(len(df.columns), 'note', 2, allow_duplicates=True)
        df['profile'] = [np.arange(3) + i for i in range(len(df))]
    elif lay.get('extra') == 'mixed':
        # column labels need not be strings (pd.concat([frame, series], axis=1) gives an integer label)
        df[0] = range(len(df))
        df['station'] = 'LSGG'
        df[2.5] = 0.0
    elif lay.get('extra'):
        df['extra_col'] = range(len(df))
        df['comment'] = 'x'
    if lay.get('colperm'):
        cols = list(df.columns)
        order = [cols[i % len(cols)] for i in lay['colperm'] if i < len(cols)]
        order += [c for c in cols if c not in order]
        df = df[order]
    return df


def relabel(df, mode, ceilos):
    """ index labels carry no information: plain, per-ceilometer (as produced by concatenating
    per-ceilometer frames: repeated labels), constant, shuffled, offset, strings, floats """
    n = len(df)
    if not mode or mode == 'plain':
        return df
    if mode == 'perceilo':
        seen = {}
        lab = []
        for c in ceilos:
            lab.append(seen.get(c, 0))
            seen[c] = seen.get(c, 0) + 1
        df.index = lab
    elif mode == 'const':
        df.index = [7] * n
    elif mode == 'shuffled':
        import random as _r
        lab = list(range(n))
        _r.Random(n).shuffle(lab)
        df.index = lab
    elif mode == 'offset':
        df.index = [1000 + 3 * i for i in range(n)]
    elif mode == 'str':
        df.index = [f'row{i % max(1, n // 2)}' for i in range(n)]        # strings, with repeats
    elif mode == 'float':
        df.index = [0.5 * i for i in range(n)]
    elif mode == 'named':
        # an index that carries the name of a column (e.g. after set_index('dt', drop=False))
        df.index = pd.Index([1000 + i for i in range(n)], name='dt' if n % 2 else 'ceilo')
    elif mode == 'dtindex':
        df = df.set_index('dt', drop=False)
    elif mode == 'multi':
        df.index = pd.MultiIndex.from_arrays([[str(c) for c in ceilos], list(range(n))], names=['ceilo', 'k'])
    else:
        raise ValueError(mode)
    return df


def apply_global_prms(gprms):
    """ set leaves of dynamic.AMPYCLOUD_PRMS (for parameter sets that cannot go per call) """
    from ampycloud import dynamic
    from ampycloud.utils import utils as autils

    def rec(ref, new):
        for k, v in new.items():
            if isinstance(v, dict) and isinstance(ref.get(k), dict) and k != 'height_scale_kwargs':
                rec(ref[k], v)
            else:
                ref[k] = v
    rec(dynamic.AMPYCLOUD_PRMS, gprms)


def apply_yaml_prms(prms):
    """ the documented YAML route: write a parameter file and load it with set_prms """
    import tempfile
    import ampycloud
    from ruamel.yaml import YAML
    fd, pth = tempfile.mkstemp(suffix='.yml', prefix='verif_prms_')
    os.close(fd)
    try:
        with open(pth, 'w') as f:
            YAML(typ='safe').dump(prms, f)
        with warnings.catch_warnings():
            warnings.simplefilter('ignore')
            ampycloud.set_prms(pth)
    finally:
        os.unlink(pth)


class Poison:
    """ a value that breaks or changes any computation that reads it """

    def _boom(self, *a, **k):
        raise RuntimeError('the global parameter dictionary was read after the construction of the chunk')
    __lt__ = __le__ = __gt__ = __ge__ = __add__ = __radd__ = __sub__ = __rsub__ = __mul__ = __rmul__ = _boom
    __truediv__ = __rtruediv__ = __float__ = __int__ = __index__ = __iter__ = __len__ = __getitem__ = __bool__ = _boom
    __eq__ = __ne__ = _boom
    __hash__ = None


def poison_global():
    from ampycloud import dynamic

    def rec(d):
        for k in list(d.keys()):
            if isinstance(d[k], dict):
                rec(d[k])
            else:
                d[k] = Poison()
    rec(dynamic.AMPYCLOUD_PRMS)


class Recorder:
    """ Drives one chunk through a sequence of operations, recording one event per call. """

    def __init__(self, desc, frame=None):
        install()
        self.desc = desc
        self.frame = build_frame(desc) if frame is None else frame
        self.ranks = {} if desc.get('light') else (dt_ranks([r[1] for r in desc['rows']]) if 'rows' in desc else dt_ranks(self.frame['dt']))
        self.events = []
        self.chunk = None
        self.prev = None
        self.light = bool(desc.get('light'))
        self.trace = {'family': desc.get('family', ''), 'name': desc.get('name', ''), 'exact': True, 'light': self.light}

    def _record(self, op, arg, res, exc, msg, taps):
        if self.chunk is not None and not self.light:
            snap = snapshot(self.chunk, self.ranks)
        else:
            snap = {k: (dict(v) if isinstance(v, dict) else v) for k, v in EMPTY_SNAP.items()}
        ev = {'op': op, 'arg': arg, 'res': res, 'exc': exc, 'msg': chars(msg) if msg is not None else [],
              'hasmsg': msg is not None}
        ev.update(snap)
        # what changed with respect to the previous snapshot (lets the trace spec skip re-evaluation)
        prev = self.prev or EMPTY_SNAP
        ev['dchg'] = snap['data'] != prev['data']
        ev['tchg'] = {w: (ev['dchg'] or snap['tbl'][w] != prev['tbl'][w] or snap['hast'][w] != prev['hast'][w]
                          or snap['ids'][FLD[w]] != prev['ids'][FLD[w]] or snap['has'][FLD[w]] != prev['has'][FLD[w]])
                      for w in WHICH}
        ev['same'] = (snap == prev)
        t = {'clu': taps.get('clu', []), 'hasg0': 'g0' in taps and 'g1' in taps,
             'g0': taps.get('g0', [[]])[0], 'g1': taps.get('g1', [[]])[0],
             'gmm': taps.get('gmm', []), 'cbh': taps.get('cbh', [])}
        ev['taps'] = t
        self.prev = snap
        self.events.append(ev)
        return ev

    def do(self, op, arg='', taps=True):
        """ op in construct|find_slices|find_groups|find_layers|metarize|metar_msg """
        global _taps
        from ampycloud.data import CeiloChunk
        use_taps = taps
        taps = {'_cbh_on': bool(self.desc.get('tap_cbh'))}
        if use_taps:
            _taps = taps
        res, exc, msg = 'ok', '', None
        try:
            with warnings.catch_warnings():
                warnings.simplefilter('ignore')
                if op == 'construct':
                    requested = requested_prms(self.desc.get('prms'))
                    self.chunk = CeiloChunk(self.frame, prms=self.desc.get('prms') or None)
                    self.trace['prm'] = None if self.light else project_prms(requested)
                elif op == 'run_api':
                    import ampycloud
                    requested = requested_prms(self.desc.get('prms'))
                    self.chunk = ampycloud.run(self.frame, prms=self.desc.get('prms') or None, geoloc='verif', ref_dt='2026-01-01 00:00:00')
                    if not isinstance(self.chunk, CeiloChunk):
                        raise TypeError('run() did not return a CeiloChunk')
                    self.trace['prm'] = None if self.light else project_prms(requested)
                elif op in ('find_slices', 'find_groups', 'find_layers'):
                    if self.desc.get('poison'):
                        poison_global()
                    if self.desc.get('gedit'):
                        apply_global_prms(self.desc['gedit'])     # someone edits the global dictionary after the construction
                    getattr(self.chunk, op)()
                elif op == 'metarize':
                    self.chunk.metarize(which=arg)
                elif op == 'metar_msg':
                    if self.desc.get('gedit'):
                        apply_global_prms(self.desc['gedit'])
                    msg = self.chunk.metar_msg(which=arg)
                    if not isinstance(msg, str):
                        res, exc, msg = 'exc', 'NotAString:' + type(msg).__name__, None
                else:
                    raise ValueError(op)
        except Inexact:
            raise
        except Exception as e:   # the verdict belongs to the specification, not to the tracer
            res, exc = 'exc', exc_name(e)
            self.trace.setdefault('tb', []).append(traceback.format_exc(limit=6)[-1500:])
        finally:
            if use_taps:
                _taps = None
        taps.pop('_cbh_on', None)
        return self._record(op, arg, res, exc, msg, taps)

    def finish(self):
        self.trace['raw'] = [] if self.light else project_rows(self.frame_norm(), self.ranks)
        check_int_range(self.events)
        if self.trace.get('prm') is None:
            self.trace['prm'] = DUMMY_PRM
        self.trace['events'] = self.events
        return self.trace

    def frame_norm(self):
        f = self.frame[['ceilo', 'dt', 'height', 'type']].copy()
        f['dt'] = f['dt'].astype(float)
        f['height'] = f['height'].astype(float)
        f['type'] = f['type'].astype(float).astype(int)
        return f


CANON = [('construct', ''), ('find_slices', ''), ('find_groups', ''), ('find_layers', ''),
         ('metar_msg', 'slices'), ('metar_msg', 'groups'), ('metar_msg', 'layers')]


DUMMY_PRM = {'hasmsa': False, 'msa': 0, 'buf': 0, 'h0': 0, 'h8': 0, 'p': 5, 'lb': 100, 'excl': [], 'sepv': [250], 'sepl': [],
             'minokta': 2, 'minpts': 30, 'pad': -1}
NO_CANON = {'has': False, 'ng': 'zero', 'merged': False, 'split': False, 'tbl': {w: [] for w in WHICH}, 'msg': {w: [] for w in WHICH},
            'ids': {'s': [], 'g': [], 'l': []}}


def canonical_reference(desc):
    """ tables, ids and messages of the canonical slices-groups-layers run of the same scene """
    d2 = dict(desc)
    d2['ops'] = CANON
    rec = Recorder(d2)
    for op in CANON:
        ev = rec.do(op[0], op[1])
        if ev['res'] != 'ok':
            return NO_CANON
    last = rec.events[-1]
    msgs = {e['arg']: e['msg'] for e in rec.events if e['op'] == 'metar_msg'}
    merged = any(e['op'] == 'find_groups' and e['taps']['hasg0'] and e['taps']['g0'] != e['taps']['g1'] for e in rec.events)
    split = any(r['x'] >= 2 for r in last['tbl']['groups'])
    return {'has': True, 'ng': 'some' if len(last['tbl']['groups']) > 0 else 'zero',
            'tbl': last['tbl'], 'msg': msgs, 'ids': last['ids'], 'merged': merged, 'split': split}


def run_scenario(desc):
    """ Run one scenario (descriptor dict) through the real code; returns the trace record.
    On a value the projection cannot represent, returns {'inexact': reason}. """
    _guard()
    from ampycloud import dynamic
    import ampycloud
    ampycloud.reset_prms()
    try:
        if desc.get('gprms'):
            apply_global_prms(desc['gprms'])
        if desc.get('yprms'):
            apply_yaml_prms(desc['yprms'])
        rec = Recorder(desc)
        ops = desc.get('ops') or CANON
        for op in ops:
            ev = rec.do(op[0], op[1] if len(op) > 1 else '')
            if op[0] in ('construct', 'run_api') and ev['res'] != 'ok':
                break
        tr = rec.finish()
        tr['canon'] = canonical_reference(desc) if desc.get('with_canon') else NO_CANON
        tr['desc'] = {'indomain': bool(desc.get('indomain', True)), 'grammar': bool(desc.get('grammar', True)),
                      'nomsa': bool(desc.get('nomsa', False))}
        tr['nrows'] = len(desc['rows'])
        return tr
    except Inexact as e:
        return {'inexact': str(e), 'name': desc.get('name', ''), 'family': desc.get('family', '')}
    finally:
        ampycloud.reset_prms()


def run_pair(pd_):
    """ two related scenarios through the real code -> one pair record for spec/TracePair.tla """
    a = run_scenario(pd_['a'])
    b = run_scenario(pd_['b'])
    if 'inexact' in a or 'inexact' in b:
        return {'inexact': a.get('inexact') or b.get('inexact'), 'name': pd_.get('name', '')}
    for t in (a, b):
        t.pop('canon', None)
        t.pop('tb', None)
    return {'kind': pd_['kind'], 'name': pd_.get('name', ''), 'rho': pd_.get('rho', []), 'a': a, 'b': b}
