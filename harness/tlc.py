"""Running TLC and reading what it says.  TLC is the judge: model checking of the specification and
evaluation of the specification's clauses on traces recorded from the real code both go through here."""
import os
import re
import json
import time
import shutil
import tempfile
import subprocess
from concurrent.futures import ThreadPoolExecutor

VERIF = os.path.dirname(os.path.dirname(os.path.abspath(__file__)))
SPEC = os.path.join(VERIF, 'spec')
JAR_CP = '/opt/veriftools/tla/tla2tools.jar:/opt/veriftools/tla/CommunityModules-deps.jar'


def _die_with_parent():
    """ the JVM must not outlive the check that started it """
    try:
        import ctypes
        import signal
        ctypes.CDLL('libc.so.6').prctl(1, signal.SIGKILL)
    except Exception:
        pass


class TLCFailure(Exception):
    """ TLC could not complete (machinery failure, exit 2 -- never a verdict). """


def _java(extra_props=()):
    return ['java', '-Xss16m'] + list(extra_props) + ['-cp', JAR_CP, 'tlc2.TLC']


def run_tlc(module, cfg_text, env=None, workers=16, args=(), timeout=1800, xmx=None, keep=False):
    """ Run TLC on spec/<module>.tla with the given configuration text. Returns a dict:
    out (stdout), rc, generated, distinct, depth, wall_s, violated (name or None), error (text or None) """
    tmp = tempfile.mkdtemp(prefix='verif_tlc_')
    try:
        cfg = os.path.join(tmp, module + '.cfg')
        with open(cfg, 'w') as f:
            f.write(cfg_text)
        props = ['-XX:+UseParallelGC'] if workers > 2 else ['-XX:+UseSerialGC']
        if xmx:
            props.append('-Xmx' + xmx)
        props.append('-Djava.io.tmpdir=' + tmp)          # TLC leaves an empty tlc-<n> directory per run in the JVM's tmpdir
        cmd = _java(props) + ['-workers', str(workers), '-metadir', os.path.join(tmp, 'meta'), '-noGenerateSpecTE',
                              '-config', cfg] + list(args) + [os.path.join(SPEC, module + '.tla')]
        e = dict(os.environ)
        if env:
            e.update(env)
        t0 = time.time()
        proc = subprocess.Popen(cmd, cwd=SPEC, env=e, stdout=subprocess.PIPE, stderr=subprocess.STDOUT, text=True,
                                preexec_fn=_die_with_parent)
        try:
            so, _ = proc.communicate(timeout=timeout)
        except subprocess.TimeoutExpired as ex:
            proc.kill()
            proc.communicate()
            raise TLCFailure(f'TLC timeout after {timeout}s on {module}') from ex
        except BaseException:
            proc.kill()
            raise

        class _P:
            pass
        p = _P()
        p.returncode = proc.returncode
        out = so
        res = {'out': out, 'rc': p.returncode, 'wall_s': time.time() - t0, 'cmd': ' '.join(cmd[:3] + ['...'] + cmd[-8:])}
        m = re.search(r'(\d+) states generated, (\d+) distinct states found', out)
        res['generated'] = int(m.group(1)) if m else 0
        res['distinct'] = int(m.group(2)) if m else 0
        m = re.search(r'depth of the complete state graph search is (\d+)', out)
        res['depth'] = int(m.group(1)) if m else 0
        m = re.search(r'Invariant (\S+) is violated', out)
        res['violated'] = m.group(1) if m else None
        if res['violated'] is None:
            m = re.search(r'Action property (\S+) is violated|Temporal properties were violated', out)
            if m:
                res['violated'] = m.group(1) or 'temporal'
        if 'Deadlock reached' in out:
            res['violated'] = res['violated'] or 'deadlock'
        res['error'] = None
        if res['violated'] is None and (p.returncode != 0 or 'Error:' in out):
            m = re.search(r'Error:.*', out, re.S)
            res['error'] = (m.group(0) if m else out)[-3000:]
        res['complete'] = 'Model checking completed' in out or 'finished computing' in out.lower()
        return res
    finally:
        if not keep:
            shutil.rmtree(tmp, ignore_errors=True)


def coverage_counts(out):
    """ parse '-coverage 1' output: action name -> (distinct, generated) """
    cov = {}
    for m in re.finditer(r'<(\w+) line \d+, col \d+ to line \d+, col \d+ of module (\w+)>: (\d+):(\d+)', out):
        cov[m.group(1)] = (int(m.group(3)), int(m.group(4)))
    return cov


def extract_tuples(out, tag):
    """ all printed values <<"tag", ...>> in TLC output (they may wrap over several lines) """
    res = []
    key = re.compile(r'<<\s*"%s"' % re.escape(tag))
    i = 0
    n = len(out)
    while True:
        mm = key.search(out, i)
        if not mm:
            break
        j = mm.start()
        depth = 0
        k = j
        instr = False
        while k < n:
            ch = out[k]
            if instr:
                if ch == '\\':
                    k += 1
                elif ch == '"':
                    instr = False
            elif ch == '"':
                instr = True
            elif out.startswith('<<', k):
                depth += 1
                k += 1
            elif out.startswith('>>', k):
                depth -= 1
                k += 1
                if depth == 0:
                    break
            k += 1
        res.append(re.sub(r'\s+', ' ', out[j:k + 1]))
        i = k + 1
    return res


def parse_value(txt):
    """ parse a printed TLA+ value made of <<>>, {}, [a |-> v], strings, integers, booleans -> python """
    pos = 0

    def ws():
        nonlocal pos
        while pos < len(txt) and txt[pos] in ' \n\t':
            pos += 1

    def val():
        nonlocal pos
        ws()
        if txt.startswith('<<', pos):
            pos += 2
            items = []
            ws()
            if txt.startswith('>>', pos):
                pos += 2
                return items
            while True:
                items.append(val())
                ws()
                if txt.startswith('>>', pos):
                    pos += 2
                    return items
                assert txt[pos] == ',', txt[pos:pos + 30]
                pos += 1
        if txt[pos] == '{':
            pos += 1
            items = []
            ws()
            if txt[pos] == '}':
                pos += 1
                return items
            while True:
                items.append(val())
                ws()
                if txt[pos] == '}':
                    pos += 1
                    return items
                assert txt[pos] == ',', txt[pos:pos + 30]
                pos += 1
        if txt[pos] == '[':
            pos += 1
            rec = {}
            while True:
                ws()
                m = re.match(r'(\w+) \|-> ', txt[pos:])
                assert m, txt[pos:pos + 30]
                pos += m.end()
                rec[m.group(1)] = val()
                ws()
                if txt[pos] == ']':
                    pos += 1
                    return rec
                assert txt[pos] == ',', txt[pos:pos + 30]
                pos += 1
        if txt[pos] == '"':
            m = re.match(r'"((?:[^"\\]|\\.)*)"', txt[pos:])
            pos += m.end()
            return m.group(1)
        m = re.match(r'(-?\d+)\.\.(-?\d+)', txt[pos:])
        if m:                                   # TLC prints an integer interval as a..b
            pos += m.end()
            return list(range(int(m.group(1)), int(m.group(2)) + 1))
        m = re.match(r'-?\d+', txt[pos:])
        if m:
            pos += m.end()
            return int(m.group(0))
        for lit, v in (('TRUE', True), ('FALSE', False)):
            if txt.startswith(lit, pos):
                pos += len(lit)
                return v
        raise ValueError('cannot parse: ' + txt[pos:pos + 40])
    return val()


TRACE_CFG = 'SPECIFICATION Spec\nVIEW View\nCHECK_DEADLOCK FALSE\n'


def validate_traces(traces, module='TraceChunk', shards=None, timeout=1800, extra_env=None):
    """ traces: list of trace dicts each carrying a unique integer 'tid'.
    Returns (verdicts, stats): verdicts[tid] = list of (step, fails, marks). Every event of every
    trace must produce exactly one verdict line, otherwise TLCFailure. """
    if not traces:
        return {}, {'states': 0, 'wall_s': 0.0, 'jvms': 0}
    if shards is None:
        shards = max(1, min(16, len(traces) // 8 or 1))
    # balance shards by size
    order = sorted(traces, key=lambda t: -sum(len(e.get('data', [])) + 10 for e in t['events']))
    buckets = [[] for _ in range(shards)]
    loads = [0] * shards
    for t in order:
        i = loads.index(min(loads))
        buckets[i].append(t)
        loads[i] += sum(len(e.get('data', [])) + 10 for e in t['events'])
    tmp = tempfile.mkdtemp(prefix='verif_traces_')
    t0 = time.time()
    try:
        def one(i):
            if not buckets[i]:
                return None
            path = os.path.join(tmp, f'traces_{i}.json')
            with open(path, 'w') as f:
                json.dump(buckets[i], f)
            env = {'TRACE_FILE': path}
            if extra_env:
                env.update(extra_env)
            r = run_tlc(module, TRACE_CFG, env=env, workers=1, timeout=timeout, xmx='3g')
            return r
        with ThreadPoolExecutor(max_workers=shards) as ex:
            results = list(ex.map(one, range(shards)))
        verdicts = {}
        states = 0
        for i, r in enumerate(results):
            if r is None:
                continue
            if r['error'] or r['violated']:
                raise TLCFailure(f'trace validation shard {i} failed:\n' + (r['error'] or r['out'][-3000:]))
            states += r['distinct']
            for tup in extract_tuples(r['out'], 'V'):
                v = parse_value(tup)
                verdicts.setdefault(v[1], []).append((v[2], sorted(v[3]), sorted(v[4])))
        for t in traces:
            got = sorted(s for s, _, _ in verdicts.get(t['tid'], []))
            if got != list(range(1, len(t['events']) + 1)):
                raise TLCFailure(f"trace {t['tid']}: verdict lines {got} for {len(t['events'])} events")
        return verdicts, {'states': states, 'wall_s': time.time() - t0, 'jvms': sum(1 for r in results if r)}
    finally:
        shutil.rmtree(tmp, ignore_errors=True)


def simulate(module, cfg_text, num, depth, seed, var, timeout=900):
    """ behaviours generated by TLC's simulation mode: for every behaviour the successive values of state variable
    `var` (parsed), initial state excluded """
    tmp = tempfile.mkdtemp(prefix='verif_sim_')
    try:
        cfg = os.path.join(tmp, module + '.cfg')
        with open(cfg, 'w') as f:
            f.write(cfg_text)
        cmd = _java(['-XX:+UseSerialGC', '-Djava.io.tmpdir=' + tmp]) + ['-simulate', f'file={tmp}/tr,num={num}', '-depth', str(depth), '-workers', '1', '-seed', str(seed),
                                               '-metadir', os.path.join(tmp, 'meta'), '-config', cfg, os.path.join(SPEC, module + '.tla')]
        p = subprocess.run(cmd, cwd=SPEC, capture_output=True, text=True, timeout=timeout, preexec_fn=_die_with_parent)
        out = []
        files = sorted(f for f in os.listdir(tmp) if f.startswith('tr_'))
        if not files:
            raise TLCFailure('simulation produced no behaviour:\n' + (p.stdout + p.stderr)[-2000:])
        pat = re.compile(r'/\\ ' + re.escape(var) + r' = (.*?)(?=\n/\\ |\n\n|\Z)', re.S)
        for fn in files:
            txt = open(os.path.join(tmp, fn)).read()
            vals = [parse_value(re.sub(r'\s+', ' ', m.group(1)).strip()) for m in pat.finditer(txt)]
            out.append(vals[1:])
        return out
    finally:
        shutil.rmtree(tmp, ignore_errors=True)
