"""Seeded random scenes (code -> spec direction): their traces are judged by TLC like every other.
Integer heights, several ceilometers with coincident or distinct time stamps, multi-hit measurements,
non-detections, VV hits, and parameter sets in which every leaf keeps its documented meaning."""
import random

DT = 15.0


def rand_prms(rng, ceilos, heights_hint, rich=True):
    p = {}
    if rng.random() < 0.6:
        p['MSA'] = rng.choice([0, 500, 1000, 2000, 3000, 5000, 8000, 10000] + heights_hint)
        p['MSA_HIT_BUFFER'] = rng.choice([0, 100, 500, 1500, 4000])
    p['MAX_HITS_OKTA0'] = rng.choice([0, 0, 1, 2, 3, 5])
    p['MAX_HOLES_OKTA8'] = rng.choice([0, 0, 1, 2])
    if rich:
        p['BASE_LVL_HEIGHT_PERC'] = rng.choice([0, 5, 5, 10, 50, 95, 100])
        p['BASE_LVL_LOOKBACK_PERC'] = rng.choice([100, 100, 100, 70, 50, 30, 10])
        if rng.random() < 0.35 and ceilos:
            k = rng.randint(1, len(ceilos))
            p['EXCLUDE_FOR_BASE_HEIGHT_CALC'] = sorted(rng.sample(ceilos, k))
            if rng.random() < 0.2:
                p['EXCLUDE_FOR_BASE_HEIGHT_CALC'].append('zz')     # a name that is not in the data
        r = rng.random()
        if r < 0.25:
            p['MIN_SEP_VALS'] = [rng.choice([100, 250, 400])]
            p['MIN_SEP_LIMS'] = []
        elif r < 0.5:
            p['MIN_SEP_VALS'] = [rng.choice([100, 250]), rng.choice([500, 1000]), 2000]
            p['MIN_SEP_LIMS'] = [rng.choice([1000, 3000]), 10000]
        if rng.random() < 0.3:
            p['LAYERING_PRMS'] = {'min_okta_to_split': rng.choice([1, 2, 4])}
        if rng.random() < 0.3:          # more slices, more overlaps: bundles of slices re-clustered by the grouping step
            p['SLICING_PRMS'] = {'distance_threshold': rng.choice([0.03, 0.05, 0.1])}
            p['GROUPING_PRMS'] = {'height_pad_perc': rng.choice([0, 10, 50, 100, 200])}
    return p


def rand_scene(rng, size='tiny', name='', routes=False):
    nce = rng.choice([1, 1, 2, 2, 3])
    ceilos = [['a', 'b', 'c'], ['1', '2', '10'], ['ceilo_A', 'ceilo_B', 'x']][rng.randrange(3)][:nce]
    if size == 'tiny':
        nt = rng.randint(2, 10)
    elif size == 'mid':
        nt = rng.randint(16, 50)
    else:
        nt = rng.randint(50, 90)
    nb = rng.randint(1, 4)
    bands = []
    h = rng.choice([0, 100, 300, 950, 1000, 2500, 8800, 9800])
    for _ in range(nb):
        thick = rng.choice([0, 0, 40, 150, 400, 900])
        cov = rng.choice([0.15, 0.4, 0.8, 1.0])
        drift = rng.choice([0, 0, 5, -5, 20])
        bands.append((h, thick, cov, drift))
        h += thick + rng.choice([60, 150, 250, 251, 400, 1000, 1500, 3000])
    coincident = rng.random() < 0.5
    rows = []
    for ci, c in enumerate(ceilos):
        off = 0.0 if coincident else ci * 3.0
        nt_c = nt if rng.random() < 0.7 else max(1, nt - rng.randint(0, 3))
        for t in range(nt_c):
            dt = -DT * (nt_c - 1 - t) - off
            hs = []
            for (b, th, cov, dr) in bands:
                if rng.random() < cov:
                    hh = b + (rng.randint(0, th) if th else 0) + dr * t
                    hs.append(max(0, min(99999, int(hh))))
            hs = sorted(set(hs))
            if not hs:
                if rng.random() < 0.08:
                    rows.append([c, dt, rng.choice([100, 300, 700]), -1])      # VV hit
                else:
                    rows.append([c, dt, None, 0])
            else:
                for k, hh in enumerate(hs):
                    rows.append([c, dt, hh, k + 1])
    order = rng.random()
    if order < 0.15:
        rows.reverse()
    elif order < 0.3:
        rng.shuffle(rows)
    prms = rand_prms(rng, ceilos, [b[0] for b in bands])
    out = {'family': 'R-' + size, 'name': name, 'rows': rows, 'prms': prms, 'indomain': True}
    if rng.random() < 0.3:
        out['index'] = rng.choice(['perceilo', 'perceilo', 'const', 'shuffled', 'offset', 'str', 'float'])
    if rng.random() < 0.12 and routes:
        # the parameters come through the global dictionary (no per-call dictionary at all), and the global dictionary is
        # edited once the chunk exists: the chunk must keep working with the values it was constructed with
        out['gprms'] = out['prms']
        out['prms'] = {}
        base = out['gprms']
        out['gedit'] = {'MAX_HITS_OKTA0': base.get('MAX_HITS_OKTA0', 3) + 7, 'MAX_HOLES_OKTA8': base.get('MAX_HOLES_OKTA8', 1) + 6,
                        'MSA': None if base.get('MSA') is not None else 700, 'MSA_HIT_BUFFER': 0,
                        'BASE_LVL_HEIGHT_PERC': 100 - base.get('BASE_LVL_HEIGHT_PERC', 5), 'BASE_LVL_LOOKBACK_PERC': 20,
                        'MIN_SEP_VALS': [5000], 'MIN_SEP_LIMS': [], 'EXCLUDE_FOR_BASE_HEIGHT_CALC': ['a', '1', 'ceilo_A']}
    return out


def rand_scenes(seed, n, size, tag='R'):
    out = []
    for i in range(n):
        rng = random.Random(f'{tag}:{seed}:{size}:{i}')
        out.append(rand_scene(rng, size, name=f'{tag}-{size}-{seed}-{i}', routes=True))
    return out


def anomaly_scene(rng, name=''):
    """ accepted frames carrying the anomalies documented as warnings only: second/third hits without the lower ones,
    several first (or VV) hits of one measurement at different heights, type 0 with a height, typed hits with NaN,
    types above 3, unequal sampling between ceilometers """
    d = rand_scene(rng, 'tiny', name=name)
    rows = d['rows']
    kind = rng.choice(['missing_lower', 'dup_first', 'type0_height', 'typed_nan', 'high_types', 'mixed'])
    out = []
    seen = set()
    for r in rows:
        c, t, h, k = r
        x = rng.random()
        if kind in ('missing_lower', 'mixed') and k == 1 and x < 0.4 and any(q[0] == c and q[1] == t and q[3] == 2 for q in rows):
            continue                                     # the type-1 hit of this measurement is missing
        if kind in ('dup_first', 'mixed') and k == 2 and x < 0.5:
            k = 1                                        # two first hits at different heights in one measurement
        if kind in ('type0_height', 'mixed') and k == 0 and x < 0.5:
            h = rng.choice([150, 900, 2000])
        if kind in ('typed_nan', 'mixed') and k == 1 and x < 0.15 and not any(q[0] == c and q[1] == t and q[3] != 1 for q in rows):
            h = None
        if kind in ('high_types', 'mixed') and k >= 2 and x < 0.5:
            k = k + rng.choice([2, 3])
        key = (c, t, h, k)
        if key in seen:
            continue
        seen.add(key)
        out.append([c, t, h, k])
    # the screening refuses a measurement holding both a type 0 and another type: keep the frame acceptable
    bad = {(c, t) for c, t, h, k in out if k == 0} & {(c, t) for c, t, h, k in out if k != 0}
    out = [r for r in out if (r[0], r[1]) not in bad or r[3] == 0]
    if not out:
        out = rows
    d['rows'] = out
    d['family'] = 'R-anomaly'
    d['name'] = name
    return d


def anomaly_scenes(seed, n, tag='A'):
    return [anomaly_scene(random.Random(f'{tag}:{seed}:{i}'), name=f'{tag}-anomaly-{seed}-{i}') for i in range(n)]


def crossing_scene(rng, name=''):
    """ two clouds separated in time whose base order and mean order disagree: a flat deck, then (after a gap without
    detection) a climbing layer starting below the deck and ending above it with most of its hits near the top """
    nce = rng.choice([1, 2, 4])
    ceilos = ['a', 'b', 'c', 'd'][:nce]
    H = rng.choice([1500, 2000, 4000])
    # (a long-lived deck reaches 3 oktas or more: it stays reportable when it is not the first row)
    n1, gap, n2 = rng.choice([rng.randint(10, 20), rng.randint(40, 55)]), rng.randint(18, 26), rng.randint(25, 40)
    nt = n1 + gap + n2
    lo, hi = H - rng.choice([300, 400]), H + rng.choice([500, 700])
    cov1, cov2, expo = rng.choice([0.5, 0.9, 1.0]), rng.choice([0.6, 0.85]), rng.choice([0.4, 0.5, 0.6])
    # every other scene: a steady climb, fine slices and generous padding - the thin slices overlap, the whole bundle is re-clustered in
    # time and height, and the deck and the climbing cloud come out as two groups that overlap in height (measured: with a full
    # look-back the order of the bases differs from the order of the means, with a short one from the order of the lowest hits)
    steady = rng.random() < 0.5
    if steady:
        cov1, cov2, expo = rng.choice([0.9, 1.0]), rng.choice([0.9, 1.0]), 1.0
    rows = []
    for c in ceilos:
        for t in range(nt):
            dt = -DT * (nt - 1 - t)
            if t < n1:
                rows.append([c, dt, H, 1]) if rng.random() < cov1 else rows.append([c, dt, None, 0])
            elif t < n1 + gap:
                rows.append([c, dt, None, 0])
            else:
                frac = (t - n1 - gap) / max(1, n2 - 1)
                h = int(lo + (hi - lo) * frac ** expo)                  # a continuous climb, fast at first: most hits end up near the top
                rows.append([c, dt, h, 1]) if rng.random() < cov2 else rows.append([c, dt, None, 0])
    prms = {'MAX_HITS_OKTA0': rng.choice([0, 1]), 'MAX_HOLES_OKTA8': 0}
    if rng.random() < 0.4:
        prms['MSA'] = H + rng.choice([100, 2000])
    if steady:
        prms['SLICING_PRMS'] = {'distance_threshold': rng.choice([0.05, 0.1])}
        prms['GROUPING_PRMS'] = {'height_pad_perc': rng.choice([100, 200, 400])}
    lb = rng.choice([100, 100, 30, 20])           # a short look-back: the base of the climbing cloud comes from its recent, high hits
    if lb < 100:
        prms['BASE_LVL_LOOKBACK_PERC'] = lb
    return {'family': 'R-crossing', 'name': name, 'rows': rows, 'prms': prms, 'indomain': True}


def crossing_scenes(seed, n, tag='X'):
    return [crossing_scene(random.Random(f'{tag}:{seed}:{i}'), name=f'{tag}-crossing-{seed}-{i}') for i in range(n)]


def negative_scene(rng, size='tiny', name=''):
    """ a random scene lowered so that its lowest hits lie below the station level (negative heights are accepted input:
    only a warning is issued). Codes are not defined there: the scene is outside the domain of the coding clauses. """
    d = rand_scene(rng, size=size, name=name, routes=True)
    hs = [r[2] for r in d['rows'] if r[2] is not None]
    if not hs:
        return d
    shift = min(hs) + rng.choice([40, 250, 900, 2000])
    for r in d['rows']:
        if r[2] is not None:
            r[2] = r[2] - shift
    for blk in ('prms', 'gprms'):
        if isinstance(d.get(blk), dict) and d[blk].get('MSA') is not None:
            d[blk]['MSA'] = max(0, d[blk]['MSA'] - shift)
    d['family'] = 'R-negative'
    d['grammar'] = False
    return d


def negative_scenes(seed, n, size='tiny', tag='N'):
    return [negative_scene(random.Random(f'{tag}:{size}:{seed}:{i}'), size=size, name=f'{tag}-{size}-{seed}-{i}') for i in range(n)]


def lone_multihit_scene(rng, name=''):
    """ a deck, plus clusters made only of the simultaneous higher hits of ONE measurement (several member hits, one measurement) """
    ceilos = ['a', 'b'][:rng.choice([1, 2])]
    nt = rng.randint(8, 30)
    H = rng.choice([300, 1000, 2500])
    lone = {(rng.choice(ceilos), rng.randrange(nt)): rng.choice([2, 3]) for _ in range(rng.choice([1, 1, 2]))}
    rows = []
    for c in ceilos:
        for t in range(nt):
            dt = -DT * (nt - 1 - t)
            rows.append([c, dt, H + rng.choice([0, 0, 10, 20]), 1])
            if (c, t) in lone:
                top = H + rng.choice([4000, 9000, 14000])
                for k in range(lone[(c, t)]):
                    rows.append([c, dt, top + k * rng.choice([30, 60, 90]), k + 2])
    prms = {'MAX_HITS_OKTA0': 0, 'MAX_HOLES_OKTA8': rng.choice([0, 1])}
    if rng.random() < 0.3:
        prms['BASE_LVL_HEIGHT_PERC'] = rng.choice([50, 100])
    return {'family': 'R-lonemulti', 'name': name, 'rows': rows, 'prms': prms, 'indomain': True}


def lone_multihit_scenes(seed, n, tag='L'):
    return [lone_multihit_scene(random.Random(f'{tag}:{seed}:{i}'), name=f'{tag}-lonemulti-{seed}-{i}') for i in range(n)]
