"""Configurations of the model-checking instances (MC_*.tla)."""


def tla_set(xs):
    return '{' + ', '.join(xs) + '}'


def chunk_cfg(invariants, prmset='PrmOne', lattice='LatticeA', ceilos=('a', 'b'), nt=2, maxper=2, vv=False,
              orders=('asc',), slice_oracle='bands', group_oracle='slices', merge_excl=True, gmm_time=True,
              fixed_ids=True):
    lines = ['SPECIFICATION Spec', 'CONSTANTS',
             ' Ceilos = ' + tla_set('"%s"' % c for c in ceilos),
             f' NT = {nt}', f' Lattice <- {lattice}', f' MaxPerMeas = {maxper}',
             f' WithVV = {"TRUE" if vv else "FALSE"}',
             ' RowOrders = ' + tla_set('"%s"' % o for o in orders),
             f' PrmSet <- {prmset}', f' SliceOracle = "{slice_oracle}"', f' GroupOracle = "{group_oracle}"',
             f' MergeWithExcl = {"TRUE" if merge_excl else "FALSE"}',
             f' GmmTimeOrder = {"TRUE" if gmm_time else "FALSE"}',
             f' FixedIds = {"TRUE" if fixed_ids else "FALSE"}']
    lines += [f'INVARIANT {i}' for i in invariants]
    lines += ['CHECK_DEADLOCK FALSE']
    return '\n'.join(lines) + '\n'
