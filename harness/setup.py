"""./check setup: nothing is installed; verify the tools the checks need are present and parse the spec."""
import os
import sys
import subprocess
from . import tlc


def main():
    ok = True
    for d in ('evidence', 'replays'):
        os.makedirs(os.path.join(tlc.VERIF, d), exist_ok=True)
    r = subprocess.run(['java', '-version'], capture_output=True, text=True)
    print('java:', (r.stderr or r.stdout).splitlines()[0] if (r.stderr or r.stdout) else 'missing')
    ok &= r.returncode == 0
    ok &= os.path.exists('/opt/veriftools/tla/tla2tools.jar')
    r = subprocess.run(['/venv/bin/python', '-c', 'import sys; sys.path.insert(0, "/repo/src"); import ampycloud, pandas, sklearn, statsmodels; print("ampycloud", ampycloud.__version__)'],
                       capture_output=True, text=True)
    print(r.stdout.strip() or r.stderr[-500:])
    ok &= r.returncode == 0
    for m in sorted(f for f in os.listdir(tlc.SPEC) if f.endswith('.tla')):
        r = subprocess.run(['java', '-cp', tlc.JAR_CP, 'tla2sany.SANY', m], cwd=tlc.SPEC, capture_output=True, text=True)
        bad = 'rror' in r.stdout and 'Semantic errors' in r.stdout or 'Fatal' in r.stdout or 'Could not' in r.stdout
        print('sany', m, 'FAILED' if bad else 'ok')
        ok &= not bad
    print('setup', 'ok' if ok else 'FAILED')
    return 0 if ok else 2
