"""Worker side of C13: several chunks, each with its own data and per-call parameters, stepped through
their stages (a) from one thread in a given interleaving, (b) from real threads under a token-passing
scheduler that pre-empts at source-line granularity inside ampycloud code.  Every chunk's recorded
events are paired with those of the same scene processed alone (judged by spec/TracePair.tla)."""
import os
import sys
import threading

from . import tracer

STAGE_OPS = [('construct', ''), ('find_slices', ''), ('find_groups', ''), ('find_layers', ''), ('metar_msg', 'layers')]


def alone(desc, nstages):
    rec = tracer.Recorder(desc)
    for op in STAGE_OPS[:nstages]:
        rec.do(op[0], op[1], taps=False)
    return finish(rec, desc)


def finish(rec, desc):
    tr = rec.finish()
    tr['desc'] = {'indomain': True, 'grammar': True, 'nomsa': False}
    tr['nrows'] = len(desc['rows'])
    tr.pop('tb', None)
    return tr


def pairs_of(name, descs, solo, inter):
    out = []
    for i, (a, b) in enumerate(zip(solo, inter)):
        out.append({'kind': 'c13', 'name': f'{name}:chunk{i + 1}', 'rho': [], 'a': a, 'b': b})
    return out


def run_interleaving(job):
    """ job: {name, chunks: [desc...], order: [chunk numbers 1..N], nstages} """
    tracer._guard()
    import ampycloud
    ampycloud.reset_prms()
    try:
        descs, n = job['chunks'], job['nstages']
        solo = [alone(d, n) for d in descs]
        recs = [tracer.Recorder(d) for d in descs]
        pcs = [0] * len(descs)
        poisoned = False
        for k, c in enumerate(job['order']):
            i = c - 1
            op = STAGE_OPS[pcs[i]]
            recs[i].do(op[0], op[1], taps=False)
            pcs[i] += 1
            if job.get('edit_global_at') is not None and k >= job['edit_global_at'] and all(x >= 1 for x in pcs) and not poisoned:
                tracer.poison_global()          # someone else edits the global dictionary in between (after the constructions)
                poisoned = True
        inter = [finish(r, d) for r, d in zip(recs, descs)]
        return pairs_of(job['name'], descs, solo, inter)
    except tracer.Inexact as e:
        return [{'inexact': str(e), 'name': job['name']}]
    finally:
        ampycloud.reset_prms()


class TokenScheduler:
    """ Only the thread holding the token runs.  Every 'line' event inside ampycloud/*.py counts; when a
    thread reaches one of its pre-emption points it hands the token to the next unfinished thread. """

    def __init__(self, nthreads, preempt, srcdir, hot=()):
        self.hot = set(hot)           # names of functions in which EVERY line pre-empts
        self.cv = threading.Condition()
        self.token = 0
        self.n = nthreads
        self.done = [False] * nthreads
        self.count = [0] * nthreads
        self.preempt = [set(p) for p in preempt]
        self.srcdir = srcdir
        self.switches = 0

    def wait_turn(self, i):
        with self.cv:
            while self.token != i:
                self.cv.wait()

    def pass_token(self, i):
        with self.cv:
            for k in range(1, self.n + 1):
                j = (i + k) % self.n
                if not self.done[j] and j != i:
                    self.token = j
                    self.switches += 1
                    self.cv.notify_all()
                    break
            else:
                return
            while self.token != i:
                self.cv.wait()

    def finish(self, i):
        with self.cv:
            self.done[i] = True
            for k in range(1, self.n + 1):
                j = (i + k) % self.n
                if not self.done[j]:
                    self.token = j
                    break
            self.cv.notify_all()

    def tracer_for(self, i):
        def local(frame, event, arg):
            if event == 'line':
                self.count[i] += 1
                if self.count[i] in self.preempt[i] or frame.f_code.co_name in self.hot:
                    self.pass_token(i)
            return local

        def glob(frame, event, arg):
            if event == 'call' and frame.f_code.co_filename.startswith(self.srcdir):
                return local
            return None
        return glob


def run_threads(job):
    """ job: {name, chunks, nstages, preempt: [[line counts] per thread]} """
    tracer._guard()
    import ampycloud
    ampycloud.reset_prms()
    try:
        descs, n = job['chunks'], job['nstages']
        solo = [alone(d, n) for d in descs]
        srcdir = os.path.dirname(ampycloud.__file__)
        sch = TokenScheduler(len(descs), job['preempt'], srcdir, hot=job.get('hot', ()))
        recs = [tracer.Recorder(d) for d in descs]
        errs = []

        def body(i):
            sch.wait_turn(i)
            sys.settrace(sch.tracer_for(i))
            try:
                for op in STAGE_OPS[:n]:
                    recs[i].do(op[0], op[1], taps=False)
            except BaseException as e:       # pragma: no cover
                errs.append(repr(e))
            finally:
                sys.settrace(None)
                sch.finish(i)
        ths = [threading.Thread(target=body, args=(i,)) for i in range(len(descs))]
        for t in ths:
            t.start()
        for t in ths:
            t.join(600)
        if errs or any(t.is_alive() for t in ths):
            return [{'worker_error': f'threads failed: {errs}', 'item': job['name']}]
        inter = [finish(r, d) for r, d in zip(recs, descs)]
        out = pairs_of(job['name'], descs, solo, inter)
        for p in out:
            p['switches'] = sch.switches
            p['lines'] = list(sch.count)
        return out
    except tracer.Inexact as e:
        return [{'inexact': str(e), 'name': job['name']}]
    finally:
        ampycloud.reset_prms()
