"""Worker-side producers of function tables: the real functions evaluated over finite domains,
results logged as integers only."""
import os
import sys
import math
import json
import zlib
import warnings

from . import tracer   # sets sys.path to the repository under test

import numpy as np


def _kind(fn, *a, **k):
    from ampycloud.errors import AmpycloudError
    try:
        with warnings.catch_warnings():
            warnings.simplefilter('ignore')
            return 'ok', fn(*a, **k)
    except AmpycloudError:
        return 'refuse', None
    except Exception as e:      # any other exception type is not a refusal
        return 'other:' + type(e).__name__, None


def c17_table(n):
    """ codes (flag bits + marker bit 2^len) of significant_cloud for all 9^n sequences of length n """
    from ampycloud import icao
    out = []
    for idx in range(9 ** n):
        o = [(idx // 9 ** (n - 1 - i)) % 9 for i in range(n)]
        f = icao.significant_cloud(list(o))
        if idx % 3 == 0:
            # the answer belongs to the sequence, not to the call history: the caller edits the list it got in place (clears a flag,
            # appends one), then asks again about an equal sequence; the table holds the second answer
            try:
                if len(f):
                    f[-1] = not f[-1]
                f.append(True)
            except (TypeError, AttributeError):
                pass                      # a result that cannot be edited in place cannot be tampered with
            f = icao.significant_cloud(list(o))
        v = sum((1 << i) for i, x in enumerate(f) if x is True or x == 1) + (1 << len(f))
        out.append(v)
    return out


def c17_long(args):
    seed, count = args
    import random
    from ampycloud import icao
    rng = random.Random(seed)
    out = []
    for _ in range(count):
        n = rng.randint(6, 30)
        o = [rng.choice([0, 0, 1, 2, 3, 4, 5, 6, 7, 8]) for _ in range(n)]
        f = icao.significant_cloud(list(o))
        if len(out) % 2:
            try:
                f.append(False)
            except (TypeError, AttributeError):
                pass
            f = icao.significant_cloud(tuple(o)) if len(out) % 4 == 1 else icao.significant_cloud(list(o))
        out.append({'o': o, 'f': [bool(x) for x in f]})
    return out


def c18_perc_rows(args):
    lo, hi = args
    from ampycloud import wmo
    rows, arr, arr2 = [], [], []
    for m in range(lo, hi + 1):
        row = []
        for n in range(m + 1):
            k, v = _kind(wmo.perc2okta, n / m * 100)
            row.append(int(np.asarray(v).flatten()[0]) if k == 'ok' else -9)
        percs = np.array([n / m * 100 for n in range(m + 1)])
        k, v = _kind(wmo.perc2okta, percs)
        arr.append([int(x) for x in v] if k == 'ok' else [-9] * (m + 1))
        # the caller keeps using its array: the whole array again, then one element of it (the oktas belong to the percentages)
        k, v = _kind(wmo.perc2okta, percs)
        again = [int(x) for x in v] if k == 'ok' else [-9] * (m + 1)
        k, v = _kind(wmo.perc2okta, percs[m])
        if k != 'ok' or int(np.asarray(v).flatten()[0]) != row[m]:
            again[m] = -9
        arr2.append(again)
        rows.append(row)
    return {'lo': lo, 'hi': hi, 'rows': rows, 'arr': arr, 'arr2': arr2}


def _hcode(h):
    from ampycloud import wmo
    k, v = _kind(wmo.height2code, h)
    if k != 'ok' or not isinstance(v, str):
        return 0, -1
    return len(v), (int(v) if v.isdigit() else -1)


def c18_heights(args):
    lo, hi, step = args
    hs = []
    for h in range(lo, hi + 1, step):
        ln, val = _hcode(float(h))
        hs.append({'h': h, 'len': ln, 'val': val})
        if h % 2 == 0:           # integer inputs too
            ln2, val2 = _hcode(int(h))
            if (ln2, val2) != (ln, val):
                hs.append({'h': h, 'len': ln2, 'val': -2})
    nb = []
    bounds = [k for k in range(lo, hi + 1) if (k % 100 == 0 and k <= 10000) or (k % 1000 == 0 and k > 10000)]
    # values a few hundredths of a foot around every boundary (bases are interpolated percentiles): h100 = centi-feet
    near = []
    for k in bounds:
        if k == 0:
            continue
        for off in (-50, -6, -5, -4, -1, 1, 5):
            ln, val = _hcode((100 * k + off) / 100.0)
            near.append({'h100': 100 * k + off, 'len': ln, 'val': val})
    for k in bounds:
        if k == 0:
            continue
        for side in (-1, 1):
            x = float(np.nextafter(float(k), -np.inf if side < 0 else np.inf))
            ln, val = _hcode(x)
            nb.append({'k': k, 'side': side, 'len': ln, 'val': val})
    return {'hs': hs, 'nb': nb, 'near': near}


def c18_codes(_):
    from ampycloud import wmo
    oc = []
    for o in range(-2, 12):
        k, v = _kind(wmo.okta2code, o)
        if k == 'ok' and v is None:
            oc.append({'o': o, 'k': 'none', 'c': []})
        elif k == 'ok':
            oc.append({'o': o, 'k': 'ok', 'c': [ord(ch) for ch in v]})
        else:
            oc.append({'o': o, 'k': 'refuse' if k == 'refuse' else 'other', 'c': []})
    ni = []
    for what, val in (('float 1.0', 1.0), ('float 2.5', 2.5), ('str 1', '1'), ('None', None), ('list', [1]),
                      ('numpy float64', np.float64(3.0)), ('complex', 1 + 0j), ('float nan', float('nan'))):
        k, v = _kind(wmo.okta2code, val)
        ni.append({'what': what, 'k': k if k in ('ok', 'refuse') else 'other'})
    # equal-valued integers converted before (positionally, by keyword, as bool) must not make a non-integer acceptable
    for i in (0, 1, 2, 8):
        _kind(lambda v: wmo.okta2code(val=v), i)
    _kind(wmo.okta2code, True)
    _kind(wmo.okta2code, False)
    for what, call in (('kw float 2.0 after kw int 2', lambda: wmo.okta2code(val=2.0)), ('float 1.0 after True', lambda: wmo.okta2code(1.0)),
                       ('numpy float64 0 after False', lambda: wmo.okta2code(np.float64(0))), ('kw complex 8 after kw int 8', lambda: wmo.okta2code(val=8 + 0j)),
                       ('kw float 0.0 after kw int 0', lambda: wmo.okta2code(val=0.0))):
        k, v = _kind(lambda _: call(), None)
        ni.append({'what': what, 'k': k if k in ('ok', 'refuse') else 'other'})
    pr, pa = [], []
    for what, val in (('-1', -1), ('-0.001', -0.001), ('100.001', 100.001), ('1000', 1000), ('array with -1', np.array([50., -1.])),
                      ('array with 101', np.array([0., 101.])), ('-1e-12', -1e-12), ('100+1e-9', 100 + 1e-9)):
        k, v = _kind(wmo.perc2okta, val)
        pr.append({'what': what, 'k': k if k in ('ok', 'refuse') else 'other'})
    for what, val in (('0', 0), ('100', 100), ('0.0', 0.0), ('100.0', 100.0), ('50', 50), ('array 0..100', np.array([0., 12.5, 100.]))):
        k, v = _kind(wmo.perc2okta, val)
        pa.append({'what': what, 'k': k if k in ('ok', 'refuse') else 'other'})
    return {'oc': oc, 'ni': ni, 'pr': pr, 'pa': pa}


def c17_one(oktas):
    from ampycloud import icao
    return [bool(x) for x in icao.significant_cloud(list(oktas))]


# ------------------------------------------------------------------------------------------------
# C15: input screening
# ------------------------------------------------------------------------------------------------
def _build_screen_obj(f):
    import pandas as pd
    rows = f['rows']
    v = f['variant']
    ce = []
    for i, r in enumerate(rows):
        if v == 'mixedceilo' and r['c'] == '1' and i % 2 == 0:
            ce.append(1)
        else:
            ce.append(r['c'])
    dt = [(-15.0 * (3 - r['t'])) for r in rows]
    hs = [float('nan') if r['h'] == -1 else float(r['h']) for r in rows]
    ks = [int(r['k']) for r in rows]
    df = pd.DataFrame({'ceilo': pd.Series(ce, dtype=object), 'dt': pd.Series(dt, dtype=float),
                       'height': pd.Series(hs, dtype=float), 'type': pd.Series(ks, dtype=int)})
    if v == 'plain':
        df['ceilo'] = df['ceilo'].astype(pd.StringDtype())
    elif v == 'intdt':
        df['ceilo'] = df['ceilo'].astype(pd.StringDtype())
        df['dt'] = df['dt'].astype(int)
    elif v == 'floattype':
        df['ceilo'] = df['ceilo'].astype(pd.StringDtype())
        df['type'] = df['type'].astype(float)
    elif v == 'int8type':
        df['type'] = df['type'].astype('int8')
    elif v == 'intheight':
        if len(df) and df['height'].notna().all():
            df['height'] = df['height'].astype(int)
    elif v == 'strtype':
        df['type'] = df['type'].astype(str)
    if f['extra']:
        df['station'] = ['LSGG'] * len(df)
        if len(df) % 2:
            df['seq'] = list(range(len(df)))
        else:
            df[0] = list(range(len(df)))          # column labels need not be strings (pd.concat([frame, series], axis=1))
            df[(1, 'x')] = 0.5
    if f['missing'] != 'none':
        df = df.drop(columns=[f['missing']])
    o = f['obj']
    if o == 'df':
        return df
    if o == 'list':
        return df.values.tolist()
    if o == 'none':
        return None
    if o == 'dict':
        return df.to_dict(orient='list')
    if o == 'series':
        return df['height']
    if o == 'array':
        return df[['dt', 'height']].to_numpy()
    raise ValueError(o)


_SEED_FRAMES = {}


def _derived_screen_obj(f, src):
    """ the frame of _build_screen_obj(f), obtained from a previously screened frame by row selection, column assignment, column
    addition and column removal (pandas carries frame metadata along these operations) """
    import pandas as pd
    from ampycloud.utils import utils as autils
    from ampycloud.data import CeiloChunk
    target = _build_screen_obj(f)
    valid = pd.DataFrame({'ceilo': pd.Series(['z', 'z'], dtype=pd.StringDtype()), 'dt': [-15.0, 0.0], 'height': [1000.0, 1010.0], 'type': [1, 1]})
    if src not in _SEED_FRAMES:
        with warnings.catch_warnings():
            warnings.simplefilter('ignore')
            _SEED_FRAMES[src] = autils.check_data_consistency(valid) if src == 'checked' else CeiloChunk(valid, prms={'MSA': None}).data
    seedf = _SEED_FRAMES[src].copy(deep=True)
    d = seedf.iloc[[0] * len(target)].reset_index(drop=True)
    for col in list(d.columns):
        if col in target.columns:
            d[col] = target[col].values
        else:
            d = d.drop(columns=[col])
    for col in target.columns:
        if col not in d.columns:
            d[col] = target[col].values
    d.index = target.index
    return d[list(target.columns)]


def screen_case(f):
    import copy
    import pandas as pd
    from ampycloud.utils import utils as autils
    from ampycloud.errors import AmpycloudError, AmpycloudWarning
    from ampycloud import hardcoded
    arg = _build_screen_obj(f)
    before = copy.deepcopy(arg)
    res, exc, out = 'ok', '', None
    with warnings.catch_warnings(record=True) as w1:
        warnings.simplefilter('always')
        try:
            out = autils.check_data_consistency(arg)
        except Exception as e:
            res, exc = 'exc', type(e).__name__

    def same(a, b):
        if isinstance(a, pd.DataFrame) or isinstance(a, pd.Series):
            return type(a) is type(b) and a.equals(b) and list(a.index) == list(b.index) and \
                (not isinstance(a, pd.DataFrame) or (list(a.columns) == list(b.columns) and list(map(str, a.dtypes)) == list(map(str, b.dtypes))))
        if isinstance(a, np.ndarray):
            return isinstance(b, np.ndarray) and a.shape == b.shape and np.array_equal(a, b, equal_nan=True)
        return a == b or (a is None and b is None)
    o = {'cols4': False, 'dtypes': False, 'vals': False, 'argsame': bool(same(arg, before)), 'newobj': False, 'idem': False, 'idemwarn': False}
    if res == 'ok':
        req = hardcoded.REQ_DATA_COLS
        o['newobj'] = out is not arg and isinstance(out, pd.DataFrame)
        if isinstance(out, pd.DataFrame):
            o['cols4'] = sorted(out.columns) == sorted(req.keys())
            o['dtypes'] = o['cols4'] and all(out[c].dtype == t for c, t in req.items())
            if o['cols4'] and isinstance(before, pd.DataFrame) and all(c in before.columns for c in req):
                try:
                    exp = pd.DataFrame({c: before[c].astype(t) for c, t in req.items()}, index=before.index)
                    o['vals'] = bool(out[list(req)].reset_index(drop=True).equals(exp[list(req)].reset_index(drop=True))) and len(out) == len(before)
                except Exception:
                    o['vals'] = False
            with warnings.catch_warnings(record=True) as w2:
                warnings.simplefilter('always')
                try:
                    out2 = autils.check_data_consistency(out)
                    o['idem'] = bool(out2.equals(out)) and list(map(str, out2.dtypes)) == list(map(str, out.dtypes)) and list(out2.columns) == list(out.columns)
                except Exception:
                    o['idem'] = False
            o['idemwarn'] = any(issubclass(x.category, AmpycloudWarning) and str(x.message).startswith('Column') for x in w2)
    # "... (and therefore chunk construction) raises exactly when ...": with no MSA and with an MSA below every height
    cons = []
    from ampycloud.data import CeiloChunk

    def attempt(route, msa, fn):
        try:
            with warnings.catch_warnings():
                warnings.simplefilter('ignore')
                fn()
            cons.append({'route': route, 'msa': -1 if msa is None else msa, 'res': 'ok', 'exc': ''})
        except Exception as e:
            cons.append({'route': route, 'msa': -1 if msa is None else msa, 'res': 'exc', 'exc': type(e).__name__})
    for msa in (None, 50):
        arg2 = _build_screen_obj(f)
        attempt('fresh', msa, lambda: CeiloChunk(arg2, prms={'MSA': msa, 'MSA_HIT_BUFFER': 0}))
    # the verdict depends on the frame, not on its history: the same frame obtained with ordinary pandas operations from a frame
    # that passed the check before (the returned frame of a valid input), and from the data held by a chunk
    if isinstance(_build_screen_obj(f), pd.DataFrame):
        for src in (('checked', 'chunkdata') if zlib.crc32(json.dumps(f, sort_keys=True).encode()) % 4 == 0 else ('checked',)):
            arg3 = _derived_screen_obj(f, src)
            attempt('derived-' + src + '-check', None, lambda: autils.check_data_consistency(arg3))
            arg4 = _derived_screen_obj(f, src)
            attempt('derived-' + src + '-construct', None, lambda: CeiloChunk(arg4, prms={'MSA': None}))
    return {'f': f, 'res': res, 'exc': exc, 'o': o, 'cons': cons}


# ------------------------------------------------------------------------------------------------
# C19: scalings
# ------------------------------------------------------------------------------------------------
class NotSmallRational(Exception):
    pass


def _rat(x, approx=False):
    from fractions import Fraction
    if x is None or (isinstance(x, float) and math.isnan(x)):
        return [0, 0]
    if math.isinf(float(x)) or abs(float(x)) > 50000:
        if not approx:
            raise NotSmallRational(f'not a small rational: {x!r}')
        return [50001 if x > 0 else -50001, 1]
    if approx:
        # coarse on purpose: the judge's 32-bit arithmetic must survive sums and products of these values
        if abs(float(x)) > 2000:
            return [2001 if x > 0 else -2001, 1]
        fr = Fraction(float(x)).limit_denominator(1000)
        return [fr.numerator, fr.denominator]
    fr = Fraction(float(x)).limit_denominator(40000)
    if not approx and abs(float(fr) - float(x)) > 1e-9 * max(1.0, abs(float(x))):
        raise NotSmallRational(f'not a small rational: {x!r}')
    return [fr.numerator, fr.denominator]


def scale_case(c):
    from ampycloud import scaler
    fct = {'ss': 'shift-and-scale', 'mm': 'minmax-scale', 'st': 'step-scale'}[c['mode']]
    xs = np.array([float('nan') if q[1] == 0 else q[0] / q[1] for q in c['xs']], dtype=float)

    def kw():
        if c['mode'] == 'ss':
            k = {'scale': c['scale']}
            if c['hasshift']:
                k['shift'] = c['shift']
            return k
        if c['mode'] == 'mm':
            return {'min_range': c['minrange']}
        return {'steps': list(c['steps']), 'scales': list(c['scales'])}
    rec = {'c': c, 'ok': True, 'exc': '', 'ys': [], 'zs': [], 'ysn': []}
    try:
        with warnings.catch_warnings():
            warnings.simplefilter('ignore')
            x0 = xs.copy()
            ys = scaler.apply_scaling(xs, fct, **kw())
            if not np.array_equal(xs, x0, equal_nan=True):
                raise AssertionError('input array modified')
            k2 = scaler.convert_kwargs(xs, fct, **kw())
            zs = scaler.apply_scaling(np.asarray(ys, dtype=float), fct, mode='undo', **k2)
            fin = ~np.isnan(xs)
            yn = scaler.apply_scaling(xs[fin], fct, **kw())
            ysn = np.full_like(xs, np.nan)
            ysn[fin] = yn
        try:
            rec['ys'] = [_rat(v) for v in np.asarray(ys, dtype=float)]
            rec['zs'] = [_rat(v) for v in np.asarray(zs, dtype=float)]
            rec['ysn'] = [_rat(v) for v in ysn]
        except NotSmallRational as e:
            # an observed value the rational lattice of the specification cannot carry exactly: counted, and handed to the judge as
            # the nearest small rational (on the unchanged tree no case of the enumerated lattices does this)
            rec['inexact'] = str(e)
            rec['ys'] = [_rat(v, True) for v in np.asarray(ys, dtype=float)]
            rec['zs'] = [_rat(v, True) for v in np.asarray(zs, dtype=float)]
            rec['ysn'] = [_rat(v, True) for v in ysn]
    except Exception as e:
        rec['ok'] = False
        rec['exc'] = type(e).__name__ + ': ' + str(e)[:80]
    return rec


# ------------------------------------------------------------------------------------------------
# frames produced by utils.mocker.mock_layers (implementation-level invariants, judged by Screening!MockJudge)
# ------------------------------------------------------------------------------------------------
def mock_case(seed):
    import random
    import zlib
    from ampycloud.utils import mocker, utils as autils
    rng = random.Random(f'mock:{seed}')
    nce = rng.randint(1, 4)
    lookback, gap = rng.choice([(60, 15), (120, 15), (300, 30), (90, 7)])
    lyrs = [{'height': rng.choice([300, 1000, 2500, 8000]) + 700 * k, 'height_std': rng.choice([1, 50, 300]), 'sky_cov_frac': rng.choice([0, 0.1, 0.5, 1]),
             'period': rng.choice([10, 100, 1800]), 'amplitude': rng.choice([0, 100, 1000])} for k in range(rng.randint(1, 4))]

    def make():
        with autils.tmp_seed(seed):
            return mocker.mock_layers(nce, lookback, gap, lyrs)
    df = make()
    df2 = make()
    hs = sorted({float(h) for h in df['height'].dropna()})
    hrank = {h: i for i, h in enumerate(hs)}
    ts = sorted({float(t) for t in df['dt']})
    trank = {t: i + 1 for i, t in enumerate(ts)}
    rows = [{'c': str(c), 't': trank[float(t)], 'h': -1 if h != h else hrank[float(h)], 'k': int(k)}
            for c, t, h, k in zip(df['ceilo'], df['dt'], df['height'], df['type'])]
    dig = lambda d: zlib.crc32(d.to_csv().encode()) & 0x3fffffff
    import math
    return {'rows': rows, 'nce': nce, 'npts': int(math.ceil(lookback / gap)), 'digest': dig(df), 'digest2': dig(df2)}


def gmm_direct(seed):
    """ layer.ncomp_from_gmm on a fixed two-level sample with an explicit random_seed: digest of the outcome """
    import zlib
    from ampycloud import layer
    rs = np.random.RandomState(12345)
    vals = np.concatenate([rs.normal(1000, 30, 60), rs.normal(1400, 30, 50), rs.normal(1750, 25, 40)]).round()
    with warnings.catch_warnings():
        warnings.simplefilter('ignore')
        n, ids, _ = layer.ncomp_from_gmm(vals, ncomp_max=3, min_sep=100, random_seed=int(seed), scores='BIC', rescale_0_to_x=100,
                                         mode='delta', delta_mul_gain=0.95)
    return zlib.crc32(bytes([int(n)]) + np.asarray(ids, dtype=np.int64).tobytes()) & 0x3fffffff
