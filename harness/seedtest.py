"""Validate seeded changes (/verif/seeded/<name>/patch.diff) and run the checks against them.

  /venv/bin/python -m harness.seedtest <name> [--no-suite] [--checks C01,C05] [--tier quick]

For each seeded change: a scratch worktree of /repo HEAD is created outside /repo and /verif, the patch
applied, (1) the repository's test suite run (must pass), (2) the demonstration run with and without the
change (must fail / pass), (3) the property's check run with VERIF_REPO pointing to the scratch tree
(exit 1 expected).  The worktree is removed afterwards.  Results are written to meta.json."""
import os
import sys
import json
import time
import shutil
import argparse
import subprocess

VERIF = os.path.dirname(os.path.dirname(os.path.abspath(__file__)))
SEEDED = os.path.join(VERIF, 'seeded')


def sh(cmd, cwd=None, env=None, timeout=3600):
    e = dict(os.environ)
    if env:
        e.update(env)
    p = subprocess.run(cmd, cwd=cwd, env=e, capture_output=True, text=True, timeout=timeout)
    return p.returncode, p.stdout + p.stderr


def main():
    ap = argparse.ArgumentParser()
    ap.add_argument('names', nargs='+')
    ap.add_argument('--no-suite', action='store_true')
    ap.add_argument('--checks', default=None)
    ap.add_argument('--tier', default='quick')
    a = ap.parse_args()
    rc_all = 0
    for name in a.names:
        d = os.path.join(SEEDED, name)
        wt = f'/tmp/seedwt_{name}_{os.getpid()}'
        meta_path = os.path.join(d, 'meta.json')
        meta = json.load(open(meta_path)) if os.path.exists(meta_path) else {}
        agent = json.load(open(os.path.join(d, 'meta_agent.json'))) if os.path.exists(os.path.join(d, 'meta_agent.json')) else {}
        prop = meta.get('property') or agent.get('property') or name[:3]
        meta.update({'property': prop, 'summary': agent.get('summary', meta.get('summary', '')),
                     'needs': agent.get('needs', meta.get('needs', ''))})
        try:
            rc, o = sh(['git', '-C', '/repo', 'worktree', 'add', '-q', '--detach', wt, 'HEAD'])
            if rc:
                print(name, 'worktree failed', o)
                rc_all = 2
                continue
            rc, o = sh(['git', '-C', wt, 'apply', os.path.join(d, 'patch.diff')])
            if rc:
                print(name, 'patch does not apply', o)
                meta['applies'] = False
                rc_all = 2
                continue
            meta['applies'] = True
            ran = []
            if not a.no_suite:
                rc, o = sh(['/venv/bin/python', '-m', 'pytest', '-q', '-p', 'no:cacheprovider', '--timeout=900', '-n', '8'], cwd=wt,
                           env={'PYTHONPATH': os.path.join(wt, 'src')})
                tail = o.strip().splitlines()[-1] if o.strip() else ''
                meta['suite'] = tail
                ran.append('pytest (76 tests) with the change: ' + tail)
                print(name, 'suite:', tail)
            demo = os.path.join(d, 'demo.py')
            if os.path.exists(demo):
                rc1, o1 = sh(['/venv/bin/python', demo], cwd='/tmp', env={'PYTHONPATH': os.path.join(wt, 'src')})
                rc0, o0 = sh(['/venv/bin/python', demo], cwd='/tmp', env={'PYTHONPATH': '/repo/src'})
                meta['demo_with_change_rc'] = rc1
                meta['demo_without_change_rc'] = rc0
                ran.append(f'demo.py with the change: exit {rc1}; on /repo: exit {rc0}')
                print(name, 'demo with change rc', rc1, '| without rc', rc0)
            checks = (a.checks.split(',') if a.checks else [prop])
            det = meta.setdefault('detection', {})
            for c in checks:
                t0 = time.time()
                rc, o = sh([os.path.join(VERIF, 'check'), c, '--tier', a.tier], cwd=VERIF, env={'VERIF_REPO': wt})
                lines = [l for l in o.splitlines() if l.startswith(('VIOLATION', 'DRIFT', 'KNOWN', 'MACHINERY', '  clause'))]
                det[c] = {'exit': rc, 'tier': a.tier, 'wall_s': round(time.time() - t0), 'lines': lines[:8]}
                ran.append(f'VERIF_REPO=<scratch tree with the change> ./check {c} --tier {a.tier}: exit {rc}')
                print(name, 'check', c, 'exit', rc, lines[:4])
                if rc != 1:
                    rc_all = max(rc_all, 1)
            meta['ran'] = ran
        finally:
            sh(['git', '-C', '/repo', 'worktree', 'remove', '--force', wt])
            shutil.rmtree(wt, ignore_errors=True)
            with open(meta_path, 'w') as f:
                json.dump(meta, f, indent=1)
    # the evidence files were rewritten by runs against changed trees: the caller re-runs the checks on /repo
    return rc_all


if __name__ == '__main__':
    sys.exit(main())
