"""Regenerates /verif/seeded/INDEX.md from the meta.json files and NOTES.md (python -m harness.seedindex)."""
import os
import glob
import json

SEEDED = os.path.join(os.path.dirname(os.path.dirname(os.path.abspath(__file__))), 'seeded')


def main():
    rows = []
    for d in sorted(glob.glob(os.path.join(SEEDED, '*', ''))):
        if not os.path.exists(d + 'meta.json'):
            continue
        m = json.load(open(d + 'meta.json'))
        name = os.path.basename(d.rstrip('/'))
        det = m.get('detection', {})
        first = ''
        for v in det.values():
            for l in v['lines']:
                if 'clause=C' in l and not first:
                    first = l.strip().split(' ')[0].replace('clause=', '')
        drift = sorted({l.split('clause=')[1].split(' ')[0] for v in det.values() for l in v['lines'] if l.startswith('DRIFT')})
        clean = lambda x: x.replace('\n', ' ').replace('|', '/')
        rows.append((name, m.get('property'), clean(m.get('summary', ''))[:170], clean(m.get('needs', ''))[:170], m.get('suite', '').split(' in ')[0],
                     f"{m.get('demo_with_change_rc')}/{m.get('demo_without_change_rc')}", ', '.join(f'{k}: exit {v["exit"]}' for k, v in det.items()),
                     first or ('(no property clause) DRIFT ' + ','.join(drift) if drift else '')))
    with open(os.path.join(SEEDED, 'INDEX.md'), 'w') as f:
        f.write('# Seeded changes\n\nEach change was written by a fresh sub-agent that saw only the text of one property (round b: plus a one-line summary of the round-a submission, to get a '
                'different one; prompt in PROMPT_TEMPLATE.txt) and its own scratch worktree of /repo. Each was re-validated here with `python -m harness.seedtest <name>`: the repository\'s 76 tests '
                'pass with the change, `demo.py` exits 1 with it and 0 without, and the quick check of the property is run with `VERIF_REPO` pointing to a scratch worktree carrying the patch '
                '(equivalent to `git -C /repo apply`; exit 1 expected). The check columns show the LAST run, i.e. with the checks as they are now.\n\n'
                '| name | property | change | needs | suite | demo with/without | check | first failing property clause |\n|---|---|---|---|---|---|---|---|\n')
        for r in rows:
            f.write('| ' + ' | '.join(str(x) for x in r) + ' |\n')
        f.write('\n' + open(os.path.join(SEEDED, 'NOTES.md')).read())
    print(len(rows), 'seeded changes indexed')


if __name__ == '__main__':
    main()
