------------------------------ MODULE FnTables ------------------------------
(* Function tables: (A) properties of the specification's transcriptions of *)
(* the pure functions over a finite domain; (B) tables recorded from the    *)
(* real functions over the same domain, checked for completeness, against   *)
(* the property-level characterisation and against the transcription.       *)
(* Work is split in shards [LO, HI] given through the environment; every    *)
(* clause prints the set of keys on which it fails.                         *)
EXTENDS ICAO, WMO, Json, IOUtils, TLCExt

Env(n) == IOEnv[n]
\* integers arrive through the JSON file (strings of the environment cannot be indexed)
VARIABLES job, done         \* the job file is read once, into a variable
Job == job
LO == Job.lo
HI == Job.hi
Report(name, S) == PrintT(<<"R", name, S>>)

(* =========================== C17 ======================================== *)
Pow9(n) == IF n = 0 THEN 1 ELSE IF n = 1 THEN 9 ELSE IF n = 2 THEN 81 ELSE IF n = 3 THEN 729
           ELSE IF n = 4 THEN 6561 ELSE IF n = 5 THEN 59049 ELSE IF n = 6 THEN 531441 ELSE 4782969
Pow2(n) == 2 ^ n
(* the idx-th okta sequence of length n (base 9, first layer = most significant digit) *)
OktaSeqOf(idx, n) == [i \in 1..n |-> (idx \div Pow9(n - i)) % 9]
Bit(v, i) == (v \div Pow2(i - 1)) % 2 = 1
FlagsOf(v, n) == [i \in 1..n |-> Bit(v, i)]
LenOf(v, n) == v \div Pow2(n) = 1            \* the marker bit 2^len sits at position n+1 and nothing above
(* (A) on the transcription: fold = declarative rule, prefix independence, one flag per layer *)
C17_ModelOK(idx, n) ==
  LET o == OktaSeqOf(idx, n)  f == SigFlags(o) IN
  /\ SigRuleHolds(o, f) /\ Len(f) = n
  /\ (n > 0 => SubSeq(f, 1, n - 1) = SigFlags(SubSeq(o, 1, n - 1)))
(* (B) on the recorded table: tab[n+1] is the list of codes for length n *)
C17_RuleOK(tab, idx, n)   == LET v == tab[n + 1][idx + 1] IN SigRuleHolds(OktaSeqOf(idx, n), FlagsOf(v, n))
C17_LenOK(tab, idx, n)    == LenOf(tab[n + 1][idx + 1], n)
C17_PrefixOK(tab, idx, n) == n = 0 \/ LET v == tab[n + 1][idx + 1]  w == tab[n][(idx \div 9) + 1]
                                      IN FlagsOf(v, n - 1) = FlagsOf(w, n - 1)
C17_FoldOK(tab, idx, n)   == FlagsOf(tab[n + 1][idx + 1], n) = SigFlags(OktaSeqOf(idx, n))
C17_Complete(tab, maxn)   == Len(tab) = maxn + 1 /\ \A n \in 0..maxn : Len(tab[n + 1]) = Pow9(n)
C17_LongOK(e) == SigRuleHolds(e.o, e.f) /\ e.f = SigFlags(e.o)

C17Job ==
  LET tab == Job.tab  n == Job.n  R == LO..HI IN
  /\ Report("C17_Model", {i \in R : ~C17_ModelOK(i, n)})
  /\ Report("C17_Rule", {i \in R : ~C17_RuleOK(tab, i, n)})
  /\ Report("C17_OneFlagPerLayer", {i \in R : ~C17_LenOK(tab, i, n)})
  /\ Report("C17_Prefix", {i \in R : ~C17_PrefixOK(tab, i, n)})
  /\ Report("I_SigFold", {i \in R : ~C17_FoldOK(tab, i, n)})
  /\ Report("C17_Complete", IF C17_Complete(tab, Job.maxn) THEN {} ELSE {-1})
  /\ Report("C17_Long", {j \in DOMAIN Job.long : ~C17_LongOK(Job.long[j])})

(* the 4-state automaton argument for unbounded length is in ICAOAuto.tla *)

(* =========================== C18 ======================================== *)
(* rows[m] = <<okta for n = 0..m>> recorded from perc2okta(n/m*100) (scalar), arr likewise (array call) *)
C18_RowLen(row, m) == Len(row) = m + 1
C18_Nearest(row, m) == \A n \in 0..m : row[n + 1] \in Perc2OktaSet(n, m)
C18_Mono(row, m) == \A n \in 0..(m - 1) : row[n + 1] <= row[n + 2]
C18_Zero(row, m) == \A n \in 0..m : (row[n + 1] = 0) <=> (n = 0)
C18_Eight(row, m) == \A n \in 0..m : (row[n + 1] = 8) <=> (n = m)
C18_HalfEven(row, m) == \A n \in 0..m : row[n + 1] = Perc2Okta(n, m)
(* (A) the transcription itself *)
C18_ModelRow(m) == LET row == [k \in 1..(m + 1) |-> Perc2Okta(k - 1, m)] IN
                   C18_Nearest(row, m) /\ C18_Mono(row, m) /\ C18_Zero(row, m) /\ C18_Eight(row, m)
C18PercJob ==
  LET rows == Job.rows  arr == Job.arr  R == LO..HI
      row(m) == rows[m - LO + 1]  ar(m) == arr[m - LO + 1] IN
  /\ Report("C18_Model", {m \in R : ~C18_ModelRow(m)})
  /\ Report("C18_Complete", {m \in R : ~(C18_RowLen(row(m), m) /\ C18_RowLen(ar(m), m))} \cup (IF Len(rows) = HI - LO + 1 THEN {} ELSE {-1}))
  /\ Report("C18_Nearest", {m \in R : ~C18_Nearest(row(m), m)})
  /\ Report("C18_Monotone", {m \in R : ~C18_Mono(row(m), m)})
  /\ Report("C18_ZeroOnlyForNone", {m \in R : ~C18_Zero(row(m), m)})
  /\ Report("C18_EightOnlyForAll", {m \in R : ~C18_Eight(row(m), m)})
  /\ Report("C18_ArrayAgrees", {m \in R : row(m) # ar(m)})
  /\ Report("C18_RepeatAgrees", {m \in R : row(m) # Job.arr2[m - LO + 1]})      \* same array object passed again, then one of its elements
  /\ Report("I_HalfEven", {m \in R : ~C18_HalfEven(row(m), m)})

(* heights: hs[j] = [h (feet), len, val] ; nb[j] = [k (feet), side (-1|1), len, val] *)
C18_H3(e) == e.len = 3 /\ e.val >= 0
C18_HFloor(e) == e.val = HCode(100 * e.h)
C18_HNeverUp(e) == CodeValue100(e.val) <= 100 * e.h
C18_NbOK(e) == e.len = 3 /\ e.val \in HCodeSet([v |-> 100 * e.k, d |-> e.side])
C18_NbNeverUp(e) == IF e.side < 0 THEN CodeValue100(e.val) < 100 * e.k \/ e.val = HCode(100 * e.k - 1)
                    ELSE CodeValue100(e.val) <= 100 * e.k
C18_ModelH(h) == HCode(100 * h) <= HCode(100 * (h + 1)) /\ CodeValue100(HCode(100 * h)) <= 100 * h /\ HCode(100 * h) \in 0..999
C18HeightJob ==
  LET hs == Job.hs  nb == Job.nb IN
  /\ Report("C18_ModelHeight", {h \in LO..HI : ~C18_ModelH(h)})
  /\ Report("C18_ThreeDigits", {j \in DOMAIN hs : ~C18_H3(hs[j])})
  /\ Report("C18_Floor", {j \in DOMAIN hs : ~C18_HFloor(hs[j])})
  /\ Report("C18_NeverUp", {j \in DOMAIN hs : ~C18_HNeverUp(hs[j])})
  /\ Report("C18_HMonotone", {j \in 1..(Len(hs) - 1) : hs[j].h <= hs[j + 1].h /\ hs[j].val > hs[j + 1].val})
  /\ Report("C18_Neighbours", {j \in DOMAIN nb : ~C18_NbOK(nb[j])})
  /\ Report("C18_NeighboursNeverUp", {j \in DOMAIN nb : ~C18_NbNeverUp(nb[j])})
  /\ Report("C18_NearBoundaryFloor", {j \in DOMAIN Job.near : ~(Job.near[j].len = 3 /\ Job.near[j].val = HCode(Job.near[j].h100))})
  /\ Report("C18_NearBoundaryNeverUp", {j \in DOMAIN Job.near : CodeValue100(Job.near[j].val) > Job.near[j].h100})
  /\ Report("C18_HComplete", IF Len(hs) = Job.nhs /\ Len(nb) = Job.nnb THEN {} ELSE {-1})

(* okta2code: oc[j] = [o, k ("ok"|"none"|"refuse"|"other"), c (char codes)], non-integers ni[j] = [what, k] *)
(* refusals of perc2okta: pr[j] = [what, k] *)
C18CodeJob ==
  /\ Report("C18_Okta2Code", {j \in DOMAIN Job.oc : ~(LET e == Job.oc[j]  x == Okta2CodeTotal(e.o) IN e.k = x.k /\ e.c = x.c)})
  /\ Report("C18_Okta2CodeComplete", IF {Job.oc[j].o : j \in DOMAIN Job.oc} = -2..11 THEN {} ELSE {-1})
  /\ Report("C18_NonIntegersRefused", {j \in DOMAIN Job.ni : Job.ni[j].k # "refuse"})
  /\ Report("C18_OutOfRangeRefused", {j \in DOMAIN Job.pr : Job.pr[j].k # "refuse"})
  /\ Report("C18_InRangeAccepted", {j \in DOMAIN Job.pa : Job.pa[j].k # "ok"})

(* =========================== C03 (function level) ======================= *)
(* the okta with both buffers never decreases with the count, is 0 up to MAX_HITS_OKTA0 and 8 once at most MAX_HOLES_OKTA8 are missing *)
OktaMono(m, H0, H8) == \A n \in 0..(m - 1) : Okta(n, m, H0, H8) <= Okta(n + 1, m, H0, H8)
OktaSetMono(m, H0, H8) == \A n \in 0..(m - 1) : \A a \in OktaSet(n, m, H0, H8), b \in OktaSet(n + 1, m, H0, H8) : a <= b
C03MonoJob ==
  /\ Report("C03_ModelMonotone", {m \in LO..HI : \E H0 \in 0..6, H8 \in 0..6 : ~(OktaMono(m, H0, H8) /\ OktaSetMono(m, H0, H8))})
  /\ Report("C03_ModelInSet", {m \in LO..HI : \E H0 \in 0..6, H8 \in 0..6, n \in 0..m : Okta(n, m, H0, H8) \notin OktaSet(n, m, H0, H8)})

Run == CASE Job.kind = "c03mono" -> C03MonoJob
         [] Job.kind = "c17" -> C17Job
         [] Job.kind = "c18perc" -> C18PercJob
         [] Job.kind = "c18height" -> C18HeightJob
         [] Job.kind = "c18code" -> C18CodeJob
Init == job = JsonDeserialize(IOEnv.JOB_FILE) /\ done = FALSE
Next == ~done /\ done' = TRUE /\ job' = job /\ Run
Spec == Init /\ [][Next]_<<job, done>>
=============================================================================
