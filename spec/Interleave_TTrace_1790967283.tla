---- MODULE Interleave_TTrace_1790967283 ----
EXTENDS Sequences, TLCExt, Toolbox, Naturals, TLC, Interleave

_expression ==
    LET Interleave_TEExpression == INSTANCE Interleave_TEExpression
    IN Interleave_TEExpression!expression
----

_trace ==
    LET Interleave_TETrace == INSTANCE Interleave_TETrace
    IN Interleave_TETrace!trace
----

_inv ==
    ~(
        TLCGet("level") = Len(_TETrace)
        /\
        loc = (<<1, 212223242>>)
        /\
        pc = (<<0, 4>>)
        /\
        sched = (<<2, 2, 2, 2>>)
        /\
        G = (0)
    )
----

_init ==
    /\ sched = _TETrace[1].sched
    /\ G = _TETrace[1].G
    /\ pc = _TETrace[1].pc
    /\ loc = _TETrace[1].loc
----

_next ==
    /\ \E i,j \in DOMAIN _TETrace:
        /\ \/ /\ j = i + 1
              /\ i = TLCGet("level")
        /\ sched  = _TETrace[i].sched
        /\ sched' = _TETrace[j].sched
        /\ G  = _TETrace[i].G
        /\ G' = _TETrace[j].G
        /\ pc  = _TETrace[i].pc
        /\ pc' = _TETrace[j].pc
        /\ loc  = _TETrace[i].loc
        /\ loc' = _TETrace[j].loc

\* Uncomment the ASSUME below to write the states of the error trace
\* to the given file in Json format. Note that you can pass any tuple
\* to `JsonSerialize`. For example, a sub-sequence of _TETrace.
    \* ASSUME
    \*     LET J == INSTANCE Json
    \*         IN J!JsonSerialize("Interleave_TTrace_1790967283.json", _TETrace)

=============================================================================

 Note that you can extract this module `Interleave_TEExpression`
  to a dedicated file to reuse `expression` (the module in the 
  dedicated `Interleave_TEExpression.tla` file takes precedence 
  over the module `Interleave_TEExpression` below).

---- MODULE Interleave_TEExpression ----
EXTENDS Sequences, TLCExt, Toolbox, Naturals, TLC, Interleave

expression == 
    [
        \* To hide variables of the `Interleave` spec from the error trace,
        \* remove the variables below.  The trace will be written in the order
        \* of the fields of this record.
        sched |-> sched
        ,G |-> G
        ,pc |-> pc
        ,loc |-> loc
        
        \* Put additional constant-, state-, and action-level expressions here:
        \* ,_stateNumber |-> _TEPosition
        \* ,_schedUnchanged |-> sched = sched'
        
        \* Format the `sched` variable as Json value.
        \* ,_schedJson |->
        \*     LET J == INSTANCE Json
        \*     IN J!ToJson(sched)
        
        \* Lastly, you may build expressions over arbitrary sets of states by
        \* leveraging the _TETrace operator.  For example, this is how to
        \* count the number of times a spec variable changed up to the current
        \* state in the trace.
        \* ,_schedModCount |->
        \*     LET F[s \in DOMAIN _TETrace] ==
        \*         IF s = 1 THEN 0
        \*         ELSE IF _TETrace[s].sched # _TETrace[s-1].sched
        \*             THEN 1 + F[s-1] ELSE F[s-1]
        \*     IN F[_TEPosition - 1]
    ]

=============================================================================



Parsing and semantic processing can take forever if the trace below is long.
 In this case, it is advised to uncomment the module below to deserialize the
 trace from a generated binary file.

\*
\*---- MODULE Interleave_TETrace ----
\*EXTENDS IOUtils, TLC, Interleave
\*
\*trace == IODeserialize("Interleave_TTrace_1790967283.bin", TRUE)
\*
\*=============================================================================
\*

---- MODULE Interleave_TETrace ----
EXTENDS TLC, Interleave

trace == 
    <<
    ([loc |-> <<1, 2>>,pc |-> <<0, 0>>,sched |-> <<>>,G |-> 0]),
    ([loc |-> <<1, 212>>,pc |-> <<0, 1>>,sched |-> <<2>>,G |-> 0]),
    ([loc |-> <<1, 21222>>,pc |-> <<0, 2>>,sched |-> <<2, 2>>,G |-> 0]),
    ([loc |-> <<1, 2122232>>,pc |-> <<0, 3>>,sched |-> <<2, 2, 2>>,G |-> 0]),
    ([loc |-> <<1, 212223242>>,pc |-> <<0, 4>>,sched |-> <<2, 2, 2, 2>>,G |-> 0])
    >>
----


=============================================================================

---- CONFIG Interleave_TTrace_1790967283 ----
CONSTANTS
    N = 2
    Stages = 5

INVARIANT
    _inv

CHECK_DEADLOCK
    \* CHECK_DEADLOCK off because of PROPERTY or INVARIANT above.
    FALSE

INIT
    _init

NEXT
    _next

CONSTANT
    _TETrace <- _trace

ALIAS
    _expression
=============================================================================
\* Generated on Fri Oct 02 18:54:44 UTC 2026