------------------------------ MODULE Interleave ------------------------------
(* N chunks, each with its own data and per-call parameters, whose pipeline   *)
(* stages are interleaved in any order (stage granularity), while the global  *)
(* parameter dictionary may be edited at any time by someone else.  Each      *)
(* chunk's state is private (data copy, parameter snapshot, id columns,       *)
(* tables): a stage maps (own state) -> (own state) and reads nothing else.   *)
(* C13: at completion every chunk holds the result of processing it alone.    *)
EXTENDS Integers, Sequences, FiniteSets, TLC
CONSTANTS N, Stages            \* number of chunks; number of stage steps per chunk
VARIABLES pc, loc, G, sched
vars == <<pc, loc, G, sched>>
(* abstract stage function: the new private state depends on the old private state and the stage only *)
StageFn(c, k, x) == Append(x, <<c, k>>)
RECURSIVE Alone(_, _)
Alone(c, k) == IF k = 0 THEN <<>> ELSE StageFn(c, k, Alone(c, k - 1))        \* the chunk processed alone
Init == pc = [c \in 1..N |-> 0] /\ loc = [c \in 1..N |-> <<>>] /\ G = 0 /\ sched = <<>>
Step(c) == /\ pc[c] < Stages
           /\ pc' = [pc EXCEPT ![c] = @ + 1]
           /\ loc' = [loc EXCEPT ![c] = StageFn(c, pc[c] + 1, loc[c])]
           /\ sched' = Append(sched, c)
           /\ UNCHANGED G
EditGlobal == G < 1 /\ G' = G + 1 /\ UNCHANGED <<pc, loc, sched>>       \* someone edits dynamic.AMPYCLOUD_PRMS (once is enough)
Done == \A c \in 1..N : pc[c] = Stages
Emit == Done /\ G = 1 /\ PrintT(<<"S", sched>>) /\ UNCHANGED vars      \* hands every complete schedule to the driver
Next == (\E c \in 1..N : Step(c)) \/ EditGlobal \/ Emit
Spec == Init /\ [][Next]_vars
Inv_Isolated == \A c \in 1..N : loc[c] = Alone(c, pc[c])
=============================================================================
