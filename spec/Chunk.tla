------------------------------- MODULE Chunk -------------------------------
(* The ampycloud pipeline as a state machine: one CeiloChunk driven through *)
(* construct -> find_slices -> find_groups -> find_layers.  The numerical   *)
(* kernels (agglomerative clustering, Gaussian mixtures) are oracles: the   *)
(* actions quantify over every outcome they could return.  The glue is      *)
(* ChunkOps, shared with the trace specifications that judge the real code. *)
(*                                                                          *)
(* Variant switches document the two repaired defects at design level:      *)
(*   MergeWithExcl  FALSE = pinned tree (merged base recomputed without the *)
(*                  exclusion rule), TRUE = repaired                        *)
(*   GmmTimeOrder   FALSE = pinned tree (component bases taken in data-row  *)
(*                  order), TRUE = repaired (same order as the report)      *)
(*   FixedIds       FALSE = layer ids 100+10*ind+k, TRUE = offset above ids *)
EXTENDS Props

CONSTANTS Ceilos, NT, Lattice, MaxPerMeas, WithVV, RowOrders, PrmSet,
          SliceOracle, GroupOracle, MergeWithExcl, GmmTimeOrder, FixedIds

VARIABLES pc, prm, raw, data, flag, ids, tbl, kraw   \* kraw: the mixture's own component count per group row (oracle output)
vars == <<pc, prm, raw, data, flag, ids, tbl, kraw>>

NoIds == [s |-> <<>>, g |-> <<>>, l |-> <<>>]
NoTbl == [slices |-> <<>>, groups |-> <<>>, layers |-> <<>>]

(* ---------------- input frames ------------------------------------------ *)
Meas == Ceilos \X (1..NT)
IncSeqs == UNION {{SortInts(SetToSeq(S)) : S \in kSubset(n, Lattice)} : n \in 1..MaxPerMeas}
MeasOpts == {[kind |-> "none", hs |-> <<>>], [kind |-> "nodet", hs |-> <<>>]}
            \cup {[kind |-> "hits", hs |-> q] : q \in IncSeqs}
            \cup (IF WithVV THEN {[kind |-> "vv", hs |-> <<h>>] : h \in Lattice} ELSE {})
RowsOf(m, o) ==
  IF o.kind = "none" THEN <<>>
  ELSE IF o.kind = "nodet" THEN << [c |-> m[1], t |-> m[2], h |-> NaNH, k |-> 0] >>
  ELSE IF o.kind = "vv" THEN << [c |-> m[1], t |-> m[2], h |-> o.hs[1], k |-> -1] >>
  ELSE [i \in 1..Len(o.hs) |-> [c |-> m[1], t |-> m[2], h |-> o.hs[i], k |-> i]]
MeasSeq(order) ==     \* measurements by time (ascending or descending), ceilometers within
  LET cs == SetToSeq(Ceilos)
      tsq == IF order = "asc" THEN [i \in 1..NT |-> i] ELSE [i \in 1..NT |-> NT + 1 - i]
  IN [j \in 1..(NT * Len(cs)) |-> <<cs[((j - 1) % Len(cs)) + 1], tsq[((j - 1) \div Len(cs)) + 1]>>]
RECURSIVE FrameRowsR(_, _, _)
FrameRowsR(f, ms, i) == IF i = 0 THEN <<>> ELSE FrameRowsR(f, ms, i - 1) \o RowsOf(ms[i], f[ms[i]])
FrameRows(f, order) == FrameRowsR(f, MeasSeq(order), NT * Cardinality(Ceilos))

(* ---------------- oracles ------------------------------------------------ *)
(* restricted growth strings = canonical labelings of n items *)
RECURSIVE RGS(_)
RGS(n) == IF n = 0 THEN {<<>>}
          ELSE IF n = 1 THEN {<<0>>}
          ELSE UNION {{Append(q, x) : x \in 0..(SetMax(SeqToSet(q)) + 1)} : q \in RGS(n - 1)}
BandLabel(hsq, cuts, h) == Cardinality({c \in cuts : hsq[c] < h})
SliceLabelings(d) ==
  LET vs == ValidSeq(d)   nv == Len(vs) IN
  IF nv <= 1 THEN {<<>>}
  ELSE IF SliceOracle = "any" THEN RGS(nv)
  ELSE LET hsq == SortInts(SetToSeq({d[vs[j]].h : j \in 1..nv}))
       IN {[j \in 1..nv |-> BandLabel(hsq, cuts, d[vs[j]].h)] : cuts \in SUBSET (1..(Len(hsq) - 1))}

(* pre-merge grouping: clusters of hits, each named after the slice that    *)
(* holds most of its hits (MajoritySliceIdSmallestOnTie)                    *)
ModeMin(sq) == LET S == SeqToSet(sq)
                   cnt(x) == Cardinality({i \in Idx(sq) : sq[i] = x})
                   best == SetMax({cnt(x) : x \in S})
               IN SetMin({x \in S : cnt(x) = best})
GroupingFromClusters(d, sid, lab) ==      \* lab: labels over the valid rows
  LET vs == ValidSeq(d)
      pos(i) == CHOOSE j \in Idx(vs) : vs[j] = i
      blk(x) == {vs[j] : j \in {q \in Idx(vs) : lab[q] = x}}
      name(x) == ModeMin([q \in 1..Cardinality(blk(x)) |-> sid[SetToSeq(blk(x))[q]]])
  IN [i \in Idx(d) |-> IF d[i].h = NaNH THEN -1 ELSE name(lab[pos(i)])]
PreMergeGroupings(d, sid) ==
  LET vs == ValidSeq(d)   nv == Len(vs) IN
  IF nv = 0 THEN {[i \in Idx(d) |-> -1]}
  ELSE IF GroupOracle = "hits" THEN {GroupingFromClusters(d, sid, lab) : lab \in RGS(nv)}
  ELSE \* unions of whole slices
       LET ss == SortInts(SetToSeq(IdsPresent(sid)))
       IN {GroupingFromClusters(d, sid, [j \in 1..nv |-> q[CHOOSE x \in Idx(ss) : ss[x] = sid[vs[j]]]]) : q \in RGS(Len(ss))}

(* mixture outcome for one group: a component for every distinct height *)
CompMaps(hset, kmax) ==
  UNION {{f \in [hset -> 1..k] : \A c \in 1..k : \E h \in hset : f[h] = c} : k \in 1..kmax}
(* base of a component at decision time *)
OrderedMembers(d, I) ==
  IF GmmTimeOrder THEN SortSeq(SortInts(SetToSeq(I)), LAMBDA a, b : d[a].t < d[b].t)
  ELSE SortInts(SetToSeq(I))
WindowBase(d, ordmem, P, LB) ==       \* vals[-int(n*lb/100):] then percentile
  LET n == Len(ordmem)   k == WindowLen(n, LB)
      sel == IF k = 0 THEN ordmem ELSE SubSeq(ordmem, n - k + 1, n)
  IN PercOf([j \in Idx(sel) |-> d[sel[j]].h], P)
DecisionBase(d, I, p) ==
  IF GmmTimeOrder THEN Base100(d, I, p, FALSE) ELSE WindowBase(d, OrderedMembers(d, I), p.p, p.lb)

(* layering of all groups in table order, given a choice of component maps *)
RECURSIVE LayerAll(_, _, _, _, _, _, _)
LayerAll(d, g, gt, lids, choice, r, k0s) ==
  IF r > Len(gt) THEN [l |-> lids, gt |-> gt, k0s |-> k0s]
  ELSE IF SkipLayering(d, g, gt[r], prm) THEN LayerAll(d, g, gt, lids, choice, r + 1, Append(k0s, 0))   \* x stays -1
  ELSE LET I    == MemIdx(g, gt[r].cid)
           f    == choice[r]
           k0   == Cardinality({f[h] : h \in DOMAIN f})
           bs   == [c \in 1..k0 |-> DecisionBase(d, {i \in I : f[d[i].h] = c}, prm)]
           cmap == IF k0 = 1 THEN <<1>> ELSE RemergeMap(bs, MinSep(gt[r].b, prm))
           kfin == Cardinality({cmap[c] : c \in 1..k0})
           off  == LayerOffset(g, FixedIds)
           l2   == IF kfin > 1
                   THEN [i \in Idx(d) |-> IF i \in I THEN LayerId(off, r, cmap[f[d[i].h]] - 1) ELSE lids[i]]
                   ELSE lids
       IN LayerAll(d, g, [gt EXCEPT ![r].x = kfin], l2, choice, r + 1, Append(k0s, k0))

(* ---------------- the machine -------------------------------------------- *)
Init == /\ pc = "new" /\ prm \in PrmSet
        /\ \E f \in [Meas -> MeasOpts], o \in RowOrders : raw = FrameRows(f, o)
        /\ Len(raw) > 0
        /\ data = <<>> /\ flag = FALSE /\ ids = NoIds /\ tbl = NoTbl /\ kraw = <<>>

Construct ==
  /\ pc = "new" /\ Len(Crop(raw, prm)) > 0       \* an empty cropped chunk is handled by Stage-level rules
  /\ pc' = "built" /\ data' = Crop(raw, prm) /\ flag' = HighFlag(raw, prm)
  /\ UNCHANGED <<prm, raw, ids, tbl, kraw>>

FindSlices ==
  /\ pc = "built" /\ pc' = "sliced"
  /\ \E lab \in SliceLabelings(data) :
       LET s == SliceIds(data, lab) IN
       /\ ids' = [ids EXCEPT !.s = s]
       /\ tbl' = [tbl EXCEPT !.slices = Table(data, s, prm, 1)]
  /\ UNCHANGED <<prm, raw, data, flag, kraw>>

FindGroups ==
  /\ pc = "sliced" /\ pc' = "grouped"
  /\ \E g0 \in PreMergeGroupings(data, ids.s) :
       LET g1 == MergeClose(data, g0, prm, MergeWithExcl) IN
       /\ ids' = [ids EXCEPT !.g = g1]
       /\ tbl' = [tbl EXCEPT !.groups = Table(data, g1, prm, -1)]
  /\ UNCHANGED <<prm, raw, data, flag, kraw>>

FindLayers ==
  /\ pc = "grouped" /\ pc' = "layered"
  /\ LET gt == tbl.groups  g == ids.g
         Opts(r) == IF SkipLayering(data, g, gt[r], prm) THEN {<<>>}
                    ELSE CompMaps(HeightSet(data, MemIdx(g, gt[r].cid)), NcompMax(data, g, gt[r])) IN
     \E choice \in {c \in [Idx(gt) -> UNION {Opts(r) : r \in Idx(gt)}] : \A r \in Idx(gt) : c[r] \in Opts(r)} :
       /\ LET res == LayerAll(data, g, gt, [i \in Idx(data) |-> -2], choice, 1, <<>>)
              l   == [i \in Idx(data) |-> IF res.l[i] = -2 THEN g[i] ELSE res.l[i]]
          IN /\ ids' = [ids EXCEPT !.l = l]
             /\ tbl' = [tbl EXCEPT !.groups = res.gt, !.layers = Table(data, l, prm, 0)]
             /\ kraw' = res.k0s
  /\ UNCHANGED <<prm, raw, data, flag>>

Next == Construct \/ FindSlices \/ FindGroups \/ FindLayers
Spec == Init /\ [][Next]_vars

(* ---------------- the listed properties on the model --------------------- *)
Levels == {"slices", "groups", "layers"}
HasT(w) == IF w = "slices" THEN pc \in {"sliced", "grouped", "layered"}
           ELSE IF w = "groups" THEN pc \in {"grouped", "layered"} ELSE pc = "layered"
Fld(w) == IF w = "slices" THEN "s" ELSE IF w = "groups" THEN "g" ELSE "l"
M(w) == Msg(tbl[w], prm, flag)
High == HighFlag(raw, prm)

Inv_C01 == \A w \in Levels : HasT(w) => LET m == M(w) IN
   /\ C01_Grammar(m) /\ C01_Order(m) /\ C01_SecondSCT(m) /\ C01_ThirdBKN(m)
   /\ C01_Stands(m, tbl[w], prm) /\ C01_NotZeroOkta(m, tbl[w], data, ids[Fld(w)], prm)
Inv_C02 == \A w \in Levels : HasT(w) => LET m == M(w)  hi == High IN
   /\ C02_First(m, tbl[w], prm) /\ C02_Ceiling(m, tbl[w], prm) /\ C02_Listed(m, tbl[w])
   /\ C02_NCD(m, tbl[w], prm, hi) /\ C02_NSC(m, tbl[w], prm, hi)
Inv_C03 == \A w \in Levels : HasT(w) => \A r \in Idx(tbl[w]) :
   /\ C03_Count(tbl[w][r], data, ids[Fld(w)]) /\ C03_Okta(tbl[w][r], data, prm) /\ C03_Prefix(tbl[w][r])
   /\ C03_Perc(tbl[w][r], data)
Inv_C04 == \A w \in Levels : HasT(w) =>
   /\ C04_Sorted(tbl[w])
   /\ \A r \in Idx(tbl[w]) : /\ C04_Base(tbl[w][r], data, ids[Fld(w)], prm) /\ C04_Inside(tbl[w][r])
                             /\ C04_MinMax(tbl[w][r], data, ids[Fld(w)]) /\ C04_Digits(tbl[w][r])
                             /\ C04_NeverUp(tbl[w][r])
Inv_C05 == /\ (pc = "layered" => /\ C05_Partition(data, ids) /\ C05_LayerInOneGroup(ids)
                                  /\ C05_NcompCount(tbl.groups, ids))
           /\ (pc # "new" => C05_NoHitAltered(data, raw, prm))
           /\ \A w \in Levels : HasT(w) => C05_TableMatchesIds(tbl[w], ids[Fld(w)], Cardinality(IdsPresent(ids[Fld(w)])))
Inv_C06g == HasT("groups") => C06_Groups(tbl.groups, prm)
(* premise "as many layers as the mixture model distinguishes": x = kraw *)
Inv_C06l == pc = "layered" =>
   C06_Layers(tbl.groups, tbl.layers, ids, prm, [r \in Idx(tbl.groups) |-> tbl.groups[r].x = kraw[r]])
Inv_C07 == pc # "new" => /\ C07_Flag(flag, raw, prm) /\ C07_Kept(data, raw, prm) /\ C07_NoMsa(data, flag, raw, prm)
Inv_C17 == \A w \in Levels : HasT(w) =>
   SigRuleHolds([r \in Idx(tbl[w]) |-> tbl[w][r].okta], [r \in Idx(tbl[w]) |-> tbl[w][r].sig])
=============================================================================
