---------------------------- MODULE MC_Chunk ----------------------------
(* Small-constant instances of Chunk.tla.  Parameter classes are picked by *)
(* the configuration through the definitions below.                        *)
EXTENDS Chunk

P0 == [hasmsa |-> FALSE, msa |-> 0, buf |-> 0, h0 |-> 0, h8 |-> 0, p |-> 5, lb |-> 100,
       excl |-> <<>>, sepv |-> <<250, 1000>>, sepl |-> <<10000>>, minokta |-> 2, minpts |-> 3]

LatticeA == {1000, 1200, 3000}
LatticeB == {900, 1000, 1200, 9900, 10100}

\* class 1: MSA positions x buffer x okta buffers
PrmMsa == {[P0 EXCEPT !.hasmsa = hm, !.msa = ms, !.buf = bf, !.h0 = a, !.h8 = b] :
             hm \in BOOLEAN, ms \in {0, 1000, 1200, 1100}, bf \in {0, 200}, a \in {0, 1}, b \in {0, 1}}
\* class 2: base-height parameters and exclusion
PrmBase == {[P0 EXCEPT !.p = pp, !.lb = lb, !.excl = ex, !.h0 = a] :
             pp \in {0, 50, 100}, lb \in {100, 50, 34}, ex \in {<<>>, <<"a">>, <<"b">>}, a \in {0, 1}}
\* class 3: two separation bins, splitting allowed from 1 okta
PrmSep == {[P0 EXCEPT !.p = pp, !.lb = lb, !.sepv = <<250, 1000>>, !.sepl = <<1000>>, !.minokta = 1, !.excl = ex] :
             pp \in {0, 50}, lb \in {100, 50}, ex \in {<<>>, <<"b">>}}
PrmOne == {P0}
=============================================================================
