---------------------------- MODULE MC_Chunk ----------------------------
(* Small-constant instances of Chunk.tla.  Parameter classes are picked by *)
(* the configuration through the definitions below.                        *)
EXTENDS Chunk

P0 == [hasmsa |-> FALSE, msa |-> 0, buf |-> 0, h0 |-> 0, h8 |-> 0, p |-> 5, lb |-> 100,
       excl |-> <<>>, sepv |-> <<250, 1000>>, sepl |-> <<10000>>, minokta |-> 2, minpts |-> 3, pad |-> 10]

LatticeA == {1000, 1200, 3000}
LatticeB == {900, 1000, 1200, 9900, 10100}

\* class 1: MSA positions x buffer x okta buffers
PrmMsa == {[P0 EXCEPT !.hasmsa = hm, !.msa = ms, !.buf = bf, !.h0 = a, !.h8 = b] :
             hm \in BOOLEAN, ms \in {0, 1000, 1200, 1100}, bf \in {0, 200}, a \in {0, 1}, b \in {0, 1}}
\* class 2: base-height parameters and exclusion
PrmBase == {[P0 EXCEPT !.p = pp, !.lb = lb, !.excl = ex, !.h0 = a] :
             pp \in {0, 50, 100}, lb \in {100, 50, 34}, ex \in {<<>>, <<"a">>, <<"b">>}, a \in {0, 1}}
\* class 3: two separation bins, splitting allowed from 1 okta
PrmSep == {[P0 EXCEPT !.p = pp, !.lb = lb, !.sepv = sv, !.sepl = sl, !.minokta = 1, !.minpts = 2, !.excl = ex, !.h0 = a] :
             pp \in {0, 50, 100}, lb \in {100, 50, 34}, ex \in {<<>>, <<"a">>, <<"b">>}, a \in {0, 1},
             sv \in {<<250, 400>>}, sl \in {<<1225>>, <<1250>>}}
PrmOne == {P0}
LatticeC == {1000, 1200, 1250, 1600}
\* quick classes
PrmMsaQ == {P0} \cup {[P0 EXCEPT !.hasmsa = TRUE, !.msa = ms, !.buf = bf, !.h0 = a] :
                        ms \in {0, 1000, 1100}, bf \in {0, 200}, a \in {0, 1}}
PrmOkta == {[P0 EXCEPT !.h0 = a, !.h8 = b] : a \in {0, 1, 2}, b \in {0, 1, 2}}
PrmBaseQ == {[P0 EXCEPT !.p = pp, !.lb = lb, !.excl = ex, !.h0 = 1] :
             pp \in {0, 50}, lb \in {100, 50}, ex \in {<<>>, <<"a">>}}
PrmSplit == {[P0 EXCEPT !.minokta = 1, !.minpts = 2, !.hasmsa = hm, !.msa = 1100, !.buf = 0, !.sepv = <<sv, 1000>>] :
             hm \in BOOLEAN, sv \in {100, 250}}
PrmSepQ == {[P0 EXCEPT !.p = 50, !.lb = lb, !.sepv = <<250, 400>>, !.sepl = <<1225>>, !.minokta = 1, !.minpts = 2, !.excl = ex] :
             lb \in {100, 50}, ex \in {<<>>, <<"b">>}}
LatticeD == {1000, 1200, 1250}
\* instances on which the two repaired defects show at design level (sensitivity of the model)
LatticeE == {1000, 1200, 1400}
LatticeF == {1000, 1200, 1600}
PrmPinM == {[P0 EXCEPT !.p = 50, !.excl = <<"b">>]}
PrmPinO == {[P0 EXCEPT !.p = 0, !.lb = 50, !.minokta = 1, !.minpts = 2]}
=============================================================================
