---------------------------- MODULE ExportFrames ----------------------------
(* Hands the initial states of an MC_Chunk instance (frames x parameter      *)
(* records) to the driver, which executes the real code on them.             *)
EXTENDS MC_Chunk, Json, IOUtils
Frames == {FrameRows(f, o) : f \in [Meas -> MeasOpts], o \in RowOrders} \ {<<>>}
ASSUME JsonSerialize(IOEnv.OUT_DIR \o "/frames.json", SetToSeq(Frames))
ASSUME JsonSerialize(IOEnv.OUT_DIR \o "/prms.json", SetToSeq(PrmSet))
ExpInit == pc = "export" /\ prm = 0 /\ raw = <<>> /\ data = <<>> /\ flag = FALSE /\ ids = 0 /\ tbl = 0 /\ kraw = 0
ExpNext == UNCHANGED vars
=============================================================================
