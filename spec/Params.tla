------------------------------- MODULE Params -------------------------------
(* The parameter store as a state machine: any sequence of global edits,    *)
(* YAML loads, resets, caller dictionaries, chunk constructions, snapshot    *)
(* edits and runs.  C11 / C12 at design level.                               *)
EXTENDS ParamsOps, TLC
CONSTANTS Acts, MaxDepth
VARIABLES s, act
vars == <<s, act>>
View == s
Init == s = InitState /\ act = A0
Next == \E a \in Acts : Enabled(s, a) /\ s' = Step(s, a) /\ act' = a
Spec == Init /\ [][Next]_vars
Bound == TLCGet("level") <= MaxDepth

(* lists with the same identity have the same content (the representation is coherent) *)
Inv_Coherent == \A x, y \in Roots : s.lid[x] = s.lid[y] => s.t[x].sep = s.t[y].sep
Inv_Canonical == s.lid = Canon(s.lid)
(* C11: the snapshot of a chunk never shares an object with the global *)
Inv_C11_Private == C11_Private(s)
(* CallerLeafAliasing, found by TLC on a first formulation: two snapshots built from the same *)
(* caller dictionary keep sharing its list even after the caller has rebuilt the dictionary;  *)
(* the stated property (isolation from the GLOBAL parameters) does not forbid it.             *)
Prop_C11 == [][/\ C11_ConstructKeeps(s, act', s') /\ C11_GlobalEditNoEffect(s, act', s') /\ C11_SnapEditNoLeak(s, act', s')]_vars
Prop_C12 == [][/\ C12_Overlay(s, act', s') /\ C12_Yaml(s, act', s') /\ C12_ResetAll(s, act', s') /\ C12_ResetNamed(s, act', s')]_vars
(* C12: the three routes give the same snapshot for the same effective values *)
ViaCall(h, v) == Step(Step(s, [A0 EXCEPT !.op = "setcaller", !.u = 2, !.has = h, !.v = v]), [A0 EXCEPT !.op = "construct", !.c = 2, !.u = 2]).t["S2"]
ViaYaml(h, v) == Step(Step(s, [A0 EXCEPT !.op = "yaml", !.has = h, !.v = v]), [A0 EXCEPT !.op = "construct", !.c = 2]).t["S2"]
RECURSIVE GSetAll(_, _, _)
GSetAll(st, h, v) == IF h = {} THEN st
                     ELSE LET p == CHOOSE p \in h : TRUE IN
                          GSetAll(IF p = "sep" THEN Step(st, [A0 EXCEPT !.op = "gsetlist", !.v = v])
                                  ELSE IF p \in KnownPaths THEN Step(st, [A0 EXCEPT !.op = "gset", !.path = p, !.v = v]) ELSE st, h \ {p}, v)
ViaGlobal(h, v) == Step(GSetAll(s, h, v), [A0 EXCEPT !.op = "construct", !.c = 2]).t["S2"]
Inv_C12_RoutesEquivalent == \A h \in Partials, v \in Vals : ViaCall(h, v) = ViaYaml(h, v) /\ ViaYaml(h, v) = ViaGlobal(h, v)
(* a per-call run is unaffected by what the global holds for the keys it overrides *)
Inv_C12_OverridesWin == \A h \in Partials : \A v \in Vals :
   LET viaDirty == ViaCall(h, v)
       clean == [s EXCEPT !.t = [s.t EXCEPT !["G"] = Default]]
       viaClean == Step(Step(clean, [A0 EXCEPT !.op = "setcaller", !.u = 2, !.has = h, !.v = v]), [A0 EXCEPT !.op = "construct", !.c = 2, !.u = 2]).t["S2"]
   IN /\ ("msa" \in h => viaDirty.msa = viaClean.msa) /\ ("sep" \in h => viaDirty.sep = viaClean.sep)
      /\ ("thr" \in h => viaDirty.thr = viaClean.thr) /\ ("mr" \in h => viaDirty.mr = viaClean.mr)
=============================================================================
