------------------------------- MODULE Props -------------------------------
(* Property-level clauses C01 .. C06 (and the pieces of C07/C08/C14 that    *)
(* speak about one chunk).  Each clause is a literal formalisation of part *)
(* of a listed property over what a user can observe: the input rows, the  *)
(* parameters, chunk.data, the id columns, the three tables, the flag and  *)
(* the message.  Only these clauses decide VIOLATION; comparisons with the *)
(* implementation-level operators of ChunkOps are DRIFT.                   *)
EXTENDS ChunkOps

(* ======================= C01: message grammar ========================== *)
TokCount(m) == (Len(m) + 1) \div 7
Tok(m, j)   == SubSeq(m, 7 * (j - 1) + 1, 7 * (j - 1) + 6)
TokName(m, j) == SubSeq(m, 7 * (j - 1) + 1, 7 * (j - 1) + 3)
TokVal(m, j)  == DigitsVal(SubSeq(m, 7 * (j - 1) + 4, 7 * (j - 1) + 6))
IsTokenMsg(m) ==
  /\ Len(m) \in {6, 13, 20}
  /\ \A j \in 1..TokCount(m) :
       /\ NameRank(TokName(m, j)) >= 1
       /\ \A q \in 4..6 : IsDigit(m[7 * (j - 1) + q])
       /\ (j > 1 => m[7 * (j - 1)] = 32)
C01_Grammar(m) == m = cNCD \/ m = cNSC \/ IsTokenMsg(m)
C01_Order(m)   == IsTokenMsg(m) => \A j \in 1..(TokCount(m) - 1) : TokVal(m, j) <= TokVal(m, j + 1)
C01_SecondSCT(m) == IsTokenMsg(m) /\ TokCount(m) >= 2 => NameRank(TokName(m, 2)) >= 2
C01_ThirdBKN(m)  == IsTokenMsg(m) /\ TokCount(m) >= 3 => NameRank(TokName(m, 3)) >= 3
(* every group stands for a listed layer of >= 1 okta strictly below the MSA, *)
(* in table order (greedy matching of a subsequence is complete)             *)
Reportable(r, prm) == r.okta >= 1 /\ BelowMsa(r.b, prm)
RECURSIVE MatchFrom(_, _, _, _, _)
MatchFrom(m, j, tb, i, prm) ==      \* can tokens j.. be matched to rows i.. ?
  IF j > TokCount(m) THEN TRUE
  ELSE IF i > Len(tb) THEN FALSE
  ELSE IF tb[i].code = Tok(m, j) /\ Reportable(tb[i], prm) THEN MatchFrom(m, j + 1, tb, i + 1, prm)
  ELSE MatchFrom(m, j, tb, i + 1, prm)
C01_Stands(m, tb, prm) == IsTokenMsg(m) => MatchFrom(m, 1, tb, 1, prm)
(* "no group stands for a zero-okta layer", the okta being what the hits imply (C03), not what the table says *)
TrueOktaSet(r, d, idv, prm) == OktaSet(Cardinality(MeasOf(d, MemIdx(idv, r.cid))), TotalMeas(d), prm.h0, prm.h8)
C01_NotZeroOkta(m, tb, d, idv, prm) ==
  IsTokenMsg(m) => \A j \in 1..TokCount(m) :
     \E i \in Idx(tb) : tb[i].code = Tok(m, j) /\ tb[i].sig /\ TrueOktaSet(tb[i], d, idv, prm) # {0}

(* ================= C02: lowest layer, ceiling, NCD / NSC =============== *)
BelowRows(tb, prm) == {i \in Idx(tb) : Reportable(tb[i], prm)}
CeilRows(tb, prm)  == {i \in BelowRows(tb, prm) : tb[i].okta >= 5}
Lowest(tb, S)      == {i \in S : \A j \in S : tb[i].b.v <= tb[j].b.v}
CloudAbove(tb, prm) == \E i \in Idx(tb) : tb[i].okta >= 1 /\ ~BelowMsa(tb[i].b, prm)
C02_First(m, tb, prm) ==
  BelowRows(tb, prm) # {} =>
     IsTokenMsg(m) /\ \E i \in Lowest(tb, BelowRows(tb, prm)) : Tok(m, 1) = tb[i].code
C02_Ceiling(m, tb, prm) ==
  CeilRows(tb, prm) # {} =>
     IsTokenMsg(m) /\ \E i \in Lowest(tb, CeilRows(tb, prm)) : \E j \in 1..TokCount(m) : Tok(m, j) = tb[i].code
C02_Listed(m, tb) == IsTokenMsg(m) => \A j \in 1..TokCount(m) : \E i \in Idx(tb) : tb[i].code = Tok(m, j)
(* high: recomputed from the raw input, not read from the chunk's flag *)
C02_NCD(m, tb, prm, high) == m = cNCD => (\A i \in Idx(tb) : tb[i].okta = 0) /\ ~high
C02_NSC(m, tb, prm, high) == (m = cNSC) <=> (BelowRows(tb, prm) = {} /\ (CloudAbove(tb, prm) \/ high))

(* ================= C03: counts, percentages, oktas ===================== *)
C03_Count(r, d, idv) == r.n = Cardinality(MeasOf(d, MemIdx(idv, r.cid)))
C03_Perc(r, d)  == LET m == TotalMeas(d) IN m <= 2000 => Abs(r.perc4 * m - 1000000 * r.n) <= m
C03_Okta(r, d, prm) == r.okta \in OktaSet(r.n, TotalMeas(d), prm.h0, prm.h8)
C03_Prefix(r) == Len(r.code) >= 3 /\ SubSeq(r.code, 1, 3) = OktaNameC(r.okta)
(* on the function: never decreasing with the count *)
OktaMonotone(m, H0, H8) == \A n \in 0..(m - 1) : Okta(n, m, H0, H8) <= Okta(n + 1, m, H0, H8)

(* ================= C04: base height, statistics, coding, sort ========= *)
(* admissible bases: look-back + exclusion with fall-back.  The fall-back  *)
(* threshold is documented two ways (empty selection / not more than       *)
(* MAX_HITS_OKTA0 hits): between the two either selection is admissible.   *)
BaseAdmissible(d, I, prm) ==
  LET F == Filtered(d, I, prm)
  IN IF prm.excl = <<>> \/ F = {} THEN BaseSetAll(d, I, prm)
     ELSE IF Cardinality(F) > prm.h0 THEN BaseSet(d, F, prm.p, prm.lb)
     ELSE BaseSet(d, F, prm.p, prm.lb) \cup BaseSetAll(d, I, prm)
C04_Base(r, d, idv, prm)   == r.b.v \in BaseAdmissible(d, MemIdx(idv, r.cid), prm)
C04_Inside(r)  == 100 * r.hmin <= r.b.v /\ r.b.v <= 100 * r.hmax
C04_MinMax(r, d, idv) == LET hs == HeightSet(d, MemIdx(idv, r.cid))
                         IN r.hmin = SetMin(hs) /\ r.hmax = SetMax(hs) /\ r.thick = r.hmax - r.hmin
(* mean in milli-feet (rounded): |mean1000 * n - 1000 * sum| <= n *)
C04_Mean(r, d, idv) == LET I == MemIdx(idv, r.cid)   nn == Cardinality(I)
                           hs == HeightsOf(d, I)
                           s == SeqSum([j \in 1..nn |-> hs[j] - r.hmin])
                       IN /\ 1000 * r.hmin <= r.mean1000 /\ r.mean1000 <= 1000 * r.hmax
                          /\ (r.thick * nn <= 2000000 =>
                                Abs((r.mean1000 - 1000 * r.hmin) * nn - 1000 * s) <= nn)
(* std (ddof 1) in tenths of feet, NaN (-1) for a single member; bracketed exactly on small sets *)
C04_Std(r, d, idv) ==
  LET I == MemIdx(idv, r.cid)   nn == Cardinality(I)
      hs == HeightsOf(d, I)
      s  == SeqSum([j \in 1..nn |-> hs[j] - r.hmin])
      s2 == SeqSum([j \in 1..nn |-> (hs[j] - r.hmin) * (hs[j] - r.hmin)])
      num == nn * s2 - s * s          \* n(n-1) var = n s2 - s^2
  IN IF nn = 1 THEN r.std10 = -1
     ELSE /\ r.std10 >= 0 /\ r.std10 <= 10 * r.thick + 1
          /\ (nn <= 12 /\ r.thick <= 100 =>
                LET lo == Max2(0, r.std10 - 1)   hi == r.std10 + 1   den == nn * (nn - 1)
                IN lo * lo * den <= 100 * num /\ 100 * num <= hi * hi * den)
C04_Fluff(r) == r.fk = 0 /\ r.f100 >= 0
C04_Digits(r) == Len(r.code) = 6 /\ (\A q \in 4..6 : IsDigit(r.code[q]))
                 /\ DigitsVal(SubSeq(r.code, 4, 6)) \in HCodeSet(r.b)
C04_NeverUp(r) ==     \* the coded height never exceeds the base
  Len(r.code) = 6 => LET x == DigitsVal(SubSeq(r.code, 4, 6)) IN FGe(r.b, CodeValue100(x))
C04_Sorted(tb) == \A i \in 1..(Len(tb) - 1) : tb[i].b.v <= tb[i + 1].b.v

(* ================= C05: every hit accounted for exactly once =========== *)
C05_Partition(d, ids) ==
  \A i \in Idx(d) : IF d[i].h = NaNH THEN ids.s[i] = -1 /\ ids.g[i] = -1 /\ ids.l[i] = -1
                    ELSE ids.s[i] >= 0 /\ ids.g[i] >= 0 /\ ids.l[i] >= 0
C05_PartitionOne(d, idv) ==
  \A i \in Idx(d) : IF d[i].h = NaNH THEN idv[i] = -1 ELSE idv[i] >= 0
C05_TableMatchesIds(tb, idv, nrep) ==
  /\ {tb[i].cid : i \in Idx(tb)} = IdsPresent(idv)
  /\ Len(tb) = Cardinality(IdsPresent(idv))
  /\ nrep = Cardinality(IdsPresent(idv))
C05_LayerInOneGroup(ids) ==
  \A lid \in IdsPresent(ids.l) : Cardinality({ids.g[i] : i \in MemIdx(ids.l, lid)}) = 1
C05_NcompCount(gt, ids) ==
  \A r \in Idx(gt) : Cardinality({ids.l[i] : i \in MemIdx(ids.g, gt[r].cid)})
                       = (IF gt[r].x < 1 THEN 1 ELSE gt[r].x)
BagOf(sq) == [r \in SeqToSet(sq) |-> Cardinality({i \in Idx(sq) : sq[i] = r})]
C05_NoHitAltered(d, raw, prm) == BagOf(d) = BagOf(Crop(raw, prm))

(* ================= C06: minimum separation ============================= *)
C06_Groups(gt, prm) ==
  \A i \in 1..(Len(gt) - 1) :
     \E sep \in MinSepSet(gt[i + 1].b, prm) : gt[i + 1].b.v - gt[i].b.v >= 100 * sep
(* layers split from one group; premise supplied by the caller:            *)
(* noRemerge[r] = the mixture's component count was kept for group row r   *)
LayersOfGroup(lt, ids, gcid) ==
  SelectSeq(lt, LAMBDA x : \E i \in MemIdx(ids.l, x.cid) : ids.g[i] = gcid)
C06_LayersOf(gt, lt, ids, prm, r) ==
  LET ls == LayersOfGroup(lt, ids, gt[r].cid)
  IN \A a \in 1..(Len(ls) - 1) :
       \E sep \in MinSepSet(gt[r].b, prm) : ls[a + 1].b.v - ls[a].b.v >= 100 * sep
C06_Layers(gt, lt, ids, prm, noRemerge) ==
  prm.excl = <<>> => \A r \in Idx(gt) : (gt[r].x >= 2 /\ noRemerge[r]) => C06_LayersOf(gt, lt, ids, prm, r)

(* ================= C07 (single-run clauses) ============================ *)
C07_Flag(flag, raw, prm) == flag <=> (prm.hasmsa /\ NAbove(raw, prm) > prm.h0)
C07_Kept(d, raw, prm) ==          \* every hit at or below the limit is kept unchanged
  LET keptRaw == SelectSeq(raw, LAMBDA r : ~IsAbove(r, prm))
      keptDat == SelectSeq(d, LAMBDA r : TRUE)
  IN \A r \in SeqToSet(keptRaw) :
        Cardinality({i \in Idx(keptRaw) : keptRaw[i] = r}) <= Cardinality({i \in Idx(d) : d[i] = r})
C07_NoMsa(d, flag, raw, prm) == ~prm.hasmsa => d = raw /\ flag = FALSE

=============================================================================
