----------------------------- MODULE ParamsOps -----------------------------
(* The parameter store of ampycloud as pure operators: the global dictionary *)
(* dynamic.AMPYCLOUD_PRMS (root "G"), the private snapshot of every chunk     *)
(* ("S1", "S2"), the nested dictionaries handed in by callers ("U1", "U2"),   *)
(* the packaged defaults.  Representative schema (generic in the paths): a    *)
(* top-level scalar, a top-level list, a scalar in a nested dictionary, a     *)
(* scalar in a second-level dictionary.                                       *)
(*   tree    : [msa, sep (sequence of 2), thr, mr]                            *)
(*   partial : [has (set of paths, possibly unknown keys), v (tree)]          *)
(*   state   : [t (root -> tree), built (1..2 -> BOOLEAN),                    *)
(*              has (caller root -> set of paths), lid (root -> list id)]     *)
(* lid is the identity of the list object held at path sep: two roots with    *)
(* the same lid hold the SAME object (in-place edits are seen by both).       *)
(* Dictionaries are never shared between roots (DeepCopyAtConstruct,          *)
(* adjust_nested_dict recursing into dictionaries); list leaves are stored    *)
(* by reference (CallerLeafAliasing); YAML and default objects are fresh on   *)
(* every load (YamlObjectsAreFresh, ResetLoadsFreshDefaults).                 *)
EXTENDS Integers, Sequences, FiniteSets

Vals == {0, 1, 2}
Default == [msa |-> 0, sep |-> <<0, 0>>, thr |-> 0, mr |-> 0]
KnownPaths == {"msa", "sep", "thr", "mr"}
UnknownPaths == {"unknown", "slc.unknown"}
Roots == {"G", "S1", "S2", "U1", "U2"}
RootSeq == <<"G", "S1", "S2", "U1", "U2">>
SnapRoot(c) == IF c = 1 THEN "S1" ELSE "S2"
CallRoot(u) == IF u = 1 THEN "U1" ELSE "U2"

(* canonical numbering of list identities: by first occurrence in RootSeq *)
FirstIdx(lid, i) == CHOOSE j \in 1..5 : lid[RootSeq[j]] = lid[RootSeq[i]] /\ \A k \in 1..(j - 1) : lid[RootSeq[k]] # lid[RootSeq[i]]
Canon(lid) == [r \in Roots |->
                 LET i == CHOOSE i \in 1..5 : RootSeq[i] = r
                 IN Cardinality({FirstIdx(lid, j) : j \in {k \in 1..5 : FirstIdx(lid, k) < FirstIdx(lid, i)}}) + 1]
NewList(lid, r) == Canon([lid EXCEPT ![r] = 99])
ShareList(lid, r, from) == Canon([lid EXCEPT ![r] = lid[from]])
Class(lid, r) == {x \in Roots : lid[x] = lid[r]}

InitState == [t |-> [r \in Roots |-> Default], built |-> [c \in 1..2 |-> FALSE],
              has |-> [r \in {"U1", "U2"} |-> {}],
              lid |-> [r \in Roots |-> CHOOSE i \in 1..5 : RootSeq[i] = r]]       \* five distinct list objects

Overlay(t, has, v) == [msa |-> IF "msa" \in has THEN v.msa ELSE t.msa,
                       sep |-> IF "sep" \in has THEN v.sep ELSE t.sep,
                       thr |-> IF "thr" \in has THEN v.thr ELSE t.thr,
                       mr  |-> IF "mr" \in has THEN v.mr ELSE t.mr]
SetPath(t, path, v) == IF path = "msa" THEN [t EXCEPT !.msa = v] ELSE IF path = "thr" THEN [t EXCEPT !.thr = v]
                       ELSE IF path = "mr" THEN [t EXCEPT !.mr = v] ELSE t
(* in-place mutation of the list object held by root r: every root holding it sees the change *)
MutList(s, r, v) == [s EXCEPT !.t = [x \in Roots |-> IF x \in Class(s.lid, r) THEN [s.t[x] EXCEPT !.sep = <<v, s.t[x].sep[2]>>] ELSE s.t[x]]]
(* assignment of a brand new list object at root r *)
SetList(s, r, v) == [s EXCEPT !.t = [s.t EXCEPT ![r].sep = <<v, v>>], !.lid = NewList(s.lid, r)]

(* an action: [op, c, u, path, v, has]  (unused fields carry 0 / "" / {})    *)
Step(s, a) ==
  CASE a.op = "gset"      -> [s EXCEPT !.t = [s.t EXCEPT !["G"] = SetPath(s.t["G"], a.path, a.v)]]     \* dynamic.AMPYCLOUD_PRMS[..] = v
    [] a.op = "gsetlist"  -> SetList(s, "G", a.v)
    [] a.op = "gmutlist"  -> MutList(s, "G", a.v)
    [] a.op = "yaml"      ->      \* set_prms(file): overlay on G, list objects fresh from the file
         LET v == [msa |-> a.v, sep |-> <<a.v, a.v>>, thr |-> a.v, mr |-> a.v] IN
         [s EXCEPT !.t = [s.t EXCEPT !["G"] = Overlay(s.t["G"], a.has, v)],
                   !.lid = IF "sep" \in a.has THEN NewList(s.lid, "G") ELSE s.lid]
    [] a.op = "resetall"  -> [s EXCEPT !.t = [s.t EXCEPT !["G"] = Default], !.lid = NewList(s.lid, "G")]
    [] a.op = "reset"     ->      \* reset_prms(names): has = subset of top-level names {"msa", "sep", "slc"}
         [s EXCEPT !.t = [s.t EXCEPT !["G"] = [msa |-> IF "msa" \in a.has THEN 0 ELSE s.t["G"].msa,
                                                 sep |-> IF "sep" \in a.has THEN <<0, 0>> ELSE s.t["G"].sep,
                                                 thr |-> IF "slc" \in a.has THEN 0 ELSE s.t["G"].thr,
                                                 mr  |-> IF "slc" \in a.has THEN 0 ELSE s.t["G"].mr]],
                   !.lid = IF "sep" \in a.has THEN NewList(s.lid, "G") ELSE s.lid]
    [] a.op = "setcaller" ->      \* the caller (re)builds a dictionary: fresh objects
         LET r == CallRoot(a.u)  v == [msa |-> a.v, sep |-> <<a.v, a.v>>, thr |-> a.v, mr |-> a.v] IN
         [s EXCEPT !.t = [s.t EXCEPT ![r] = Overlay(Default, a.has, v)], !.has = [s.has EXCEPT ![r] = a.has],
                   !.lid = NewList(s.lid, r)]
    [] a.op = "construct" ->      \* CeiloChunk(data, prms=caller u | None): deep copy of G, then the caller's keys
         LET r == SnapRoot(a.c) IN
         IF a.u = 0 THEN [s EXCEPT !.t = [s.t EXCEPT ![r] = s.t["G"]], !.built = [s.built EXCEPT ![a.c] = TRUE], !.lid = NewList(s.lid, r)]
         ELSE LET cr == CallRoot(a.u) IN
              [s EXCEPT !.t = [s.t EXCEPT ![r] = Overlay(s.t["G"], s.has[cr], s.t[cr])],
                        !.built = [s.built EXCEPT ![a.c] = TRUE],
                        !.lid = IF "sep" \in s.has[cr] THEN ShareList(s.lid, r, cr) ELSE NewList(s.lid, r)]   \* CallerLeafAliasing
    [] a.op = "run"       -> s                                                                         \* stages read the snapshot only
    [] a.op = "sset"      -> [s EXCEPT !.t = [s.t EXCEPT ![SnapRoot(a.c)] = SetPath(s.t[SnapRoot(a.c)], a.path, a.v)]]
    [] a.op = "ssetlist"  -> SetList(s, SnapRoot(a.c), a.v)
    [] a.op = "smutlist"  -> MutList(s, SnapRoot(a.c), a.v)
    [] a.op = "umutlist"  -> MutList(s, CallRoot(a.u), a.v)
    [] a.op = "uset"      -> [s EXCEPT !.t = [s.t EXCEPT ![CallRoot(a.u)] = SetPath(s.t[CallRoot(a.u)], a.path, a.v)]]
Enabled(s, a) ==
  CASE a.op \in {"run", "sset", "ssetlist", "smutlist"} -> s.built[a.c]
    [] a.op = "umutlist" -> "sep" \in s.has[CallRoot(a.u)]
    [] a.op = "uset" -> a.path \in s.has[CallRoot(a.u)]
    [] OTHER -> TRUE
Warns(s, a) == (a.op = "yaml" /\ a.has \cap UnknownPaths # {})
               \/ (a.op = "construct" /\ a.u # 0 /\ s.has[CallRoot(a.u)] \cap UnknownPaths # {})

(* ---- the alphabet of actions (spec -> code) ---- *)
A0 == [op |-> "", c |-> 0, u |-> 0, path |-> "", v |-> 0, has |-> {}]
Partials == {{}, {"msa"}, {"sep"}, {"thr"}, {"mr"}, {"msa", "mr"}, {"sep", "thr"}, KnownPaths,
             {"unknown"}, {"msa", "unknown"}, {"thr", "slc.unknown"}}
Actions ==
  {[A0 EXCEPT !.op = "gset", !.path = p, !.v = v] : p \in {"msa", "thr", "mr"}, v \in Vals}
  \cup {[A0 EXCEPT !.op = o, !.v = v] : o \in {"gsetlist", "gmutlist"}, v \in {1, 2}}
  \cup {[A0 EXCEPT !.op = "yaml", !.has = h, !.v = v] : h \in Partials, v \in Vals}      \* the empty assignment: a parameter file with every entry commented out
  \cup {[A0 EXCEPT !.op = "resetall"]}
  \cup {[A0 EXCEPT !.op = "reset", !.has = h] : h \in SUBSET {"msa", "sep", "slc"}}      \* {}: a name outside the modelled paths (MSA_HIT_BUFFER)
  \cup {[A0 EXCEPT !.op = "setcaller", !.u = u, !.has = h, !.v = v] : u \in 1..2, h \in Partials, v \in Vals}     \* v = 0: the default value (None for MSA) named explicitly
  \cup {[A0 EXCEPT !.op = "construct", !.c = c, !.u = u] : c \in 1..2, u \in 0..2}
  \cup {[A0 EXCEPT !.op = "run", !.c = c] : c \in 1..2}
  \cup {[A0 EXCEPT !.op = "sset", !.c = c, !.path = p, !.v = v] : c \in 1..2, p \in {"msa", "mr"}, v \in {1, 2}}
  \cup {[A0 EXCEPT !.op = o, !.c = c, !.v = v] : o \in {"ssetlist", "smutlist"}, c \in 1..2, v \in {1, 2}}
  \cup {[A0 EXCEPT !.op = "umutlist", !.u = u, !.v = v] : u \in 1..2, v \in {1, 2}}
  \cup {[A0 EXCEPT !.op = "uset", !.u = u, !.path = "msa", !.v = v] : u \in 1..2, v \in {1, 2}}

(* a smaller alphabet for exhaustive exploration *)
ActionsMC ==
  {[A0 EXCEPT !.op = "gset", !.path = p, !.v = 1] : p \in {"msa", "mr"}}
  \cup {[A0 EXCEPT !.op = o, !.v = 2] : o \in {"gsetlist", "gmutlist"}}
  \cup {[A0 EXCEPT !.op = "yaml", !.has = h, !.v = 1] : h \in {{"sep", "thr"}, {"msa", "unknown"}}}
  \cup {[A0 EXCEPT !.op = "resetall"]} \cup {[A0 EXCEPT !.op = "reset", !.has = {"sep"}]}
  \cup {[A0 EXCEPT !.op = "setcaller", !.u = 1, !.has = h, !.v = 2] : h \in {{"sep"}, {"msa", "mr"}, {"thr", "slc.unknown"}}}
  \cup {[A0 EXCEPT !.op = "setcaller", !.u = 1, !.has = {"msa"}, !.v = 0]}
  \cup {[A0 EXCEPT !.op = "construct", !.c = c, !.u = u] : c \in 1..2, u \in 0..1}
  \cup {[A0 EXCEPT !.op = "sset", !.c = 1, !.path = "msa", !.v = 2]}
  \cup {[A0 EXCEPT !.op = o, !.c = c, !.v = 1] : o \in {"ssetlist", "smutlist"}, c \in 1..2}
  \cup {[A0 EXCEPT !.op = "umutlist", !.u = 1, !.v = 1]}

(* ---- property-level clauses over a step (pre s, action a, post s2) ---- *)
(* C11: constructing / running leaves the global and the caller dictionaries as they were *)
C11_ConstructKeeps(s, a, s2) == a.op \in {"construct", "run"} =>
    s2.t["G"] = s.t["G"] /\ s2.t["U1"] = s.t["U1"] /\ s2.t["U2"] = s.t["U2"] /\ s2.has = s.has
(* later edits of the global do not affect an existing chunk *)
GlobalOps == {"gset", "gsetlist", "gmutlist", "yaml", "resetall", "reset"}
C11_GlobalEditNoEffect(s, a, s2) == a.op \in GlobalOps => \A c \in 1..2 : s.built[c] => s2.t[SnapRoot(c)] = s.t[SnapRoot(c)]
(* edits of the snapshot never leak into the global *)
SnapOps == {"sset", "ssetlist", "smutlist"}
C11_SnapEditNoLeak(s, a, s2) == a.op \in SnapOps => s2.t["G"] = s.t["G"]
(* the snapshot shares no object with the global *)
C11_Private(s2) == \A c \in 1..2 : s2.built[c] => s2.lid[SnapRoot(c)] # s2.lid["G"]
(* C12: per-call values override only the keys named; everything else comes from the global at construction *)
C12_Overlay(s, a, s2) == a.op = "construct" =>
    s2.t[SnapRoot(a.c)] = (IF a.u = 0 THEN s.t["G"] ELSE Overlay(s.t["G"], s.has[CallRoot(a.u)] \cap KnownPaths, s.t[CallRoot(a.u)]))
C12_Yaml(s, a, s2) == a.op = "yaml" =>
    s2.t["G"] = Overlay(s.t["G"], a.has \cap KnownPaths, [msa |-> a.v, sep |-> <<a.v, a.v>>, thr |-> a.v, mr |-> a.v])
C12_ResetAll(s, a, s2) == a.op = "resetall" => s2.t["G"] = Default
C12_ResetNamed(s, a, s2) == a.op = "reset" =>
    /\ ("msa" \in a.has => s2.t["G"].msa = 0) /\ ("sep" \in a.has => s2.t["G"].sep = <<0, 0>>)
    /\ ("slc" \in a.has => s2.t["G"].thr = 0 /\ s2.t["G"].mr = 0)
    /\ ("msa" \notin a.has => s2.t["G"].msa = s.t["G"].msa) /\ ("sep" \notin a.has => s2.t["G"].sep = s.t["G"].sep)
    /\ ("slc" \notin a.has => s2.t["G"].thr = s.t["G"].thr /\ s2.t["G"].mr = s.t["G"].mr)
=============================================================================
