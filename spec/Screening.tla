------------------------------ MODULE Screening ------------------------------
(* Input screening (utils.check_data_consistency): abstract frames, the six  *)
(* documented rejection conditions, and the normalisation of accepted input. *)
(* Frames are enumerated here (spec -> code), built and checked by the real   *)
(* function, and the recorded outcomes judged here (code -> spec).           *)
(*  frame: [obj     : "df" | "list" | "none" | "dict" | "series" | "array",   *)
(*          missing : "none" | "ceilo" | "dt" | "height" | "type",           *)
(*          extra   : BOOLEAN (superfluous columns present),                 *)
(*          variant : "plain" | "objceilo" | "mixedceilo" | "intdt" |         *)
(*                    "floattype" | "int8type" | "intheight" | "strtype",    *)
(*          rows    : sequence of [c, t, h (-1 = NaN), k]]                   *)
EXTENDS Num, Json, IOUtils, TLCExt

Names == {"1", "b"}
RowVals == [c : Names, t : {1, 2}, h : {-1, 100}, k : {-1, 0, 1, 2}]
RECURSIVE MultiSeqs(_, _)
\* non-decreasing sequences (multisets) of length n over an ordered enumeration of RowVals
RowSeq == SetToSeq(RowVals)
RowIdx(r) == CHOOSE i \in 1..Len(RowSeq) : RowSeq[i] = r
MultiSeqs(n, lo) == IF n = 0 THEN {<<>>}
                    ELSE UNION {{<<i>> \o q : q \in MultiSeqs(n - 1, i)} : i \in lo..Len(RowSeq)}
RowsOfIdx(q) == [j \in 1..Len(q) |-> RowSeq[q[j]]]

(* ---- the documented rejection conditions ---- *)
HasDup(rows) == \E i, j \in 1..Len(rows) : i < j /\ rows[i] = rows[j]
Conflict(rows, ty) == \E i, j \in 1..Len(rows) :
                         rows[i].c = rows[j].c /\ rows[i].t = rows[j].t /\ rows[i].k = ty /\ rows[j].k # ty
R_NotFrame(f) == f.obj # "df"
R_Empty(f)    == f.obj = "df" /\ Len(f.rows) = 0
R_Missing(f)  == f.obj = "df" /\ f.missing # "none"
R_Dup(f)      == f.obj = "df" /\ HasDup(f.rows)          \* judged on the four required columns, after coercion
R_NoDet(f)    == f.obj = "df" /\ Conflict(f.rows, 0)
R_VV(f)       == f.obj = "df" /\ Conflict(f.rows, -1)
Rejects(f) == R_NotFrame(f) \/ R_Empty(f) \/ R_Missing(f) \/ R_Dup(f) \/ R_NoDet(f) \/ R_VV(f)

(* ---- enumeration (spec -> code) ---- *)
Variants == {"plain", "objceilo", "mixedceilo", "intdt", "floattype", "int8type", "intheight", "strtype"}
Frames(maxRows, Vs) ==
  {[obj |-> "df", missing |-> m, extra |-> e, variant |-> v, rows |-> RowsOfIdx(q)] :
       m \in {"none"}, e \in BOOLEAN, v \in Vs, q \in UNION {MultiSeqs(n, 1) : n \in 0..maxRows}}
  \cup {[obj |-> "df", missing |-> m, extra |-> FALSE, variant |-> "plain", rows |-> RowsOfIdx(q)] :
       m \in {"ceilo", "dt", "height", "type"}, q \in UNION {MultiSeqs(n, 1) : n \in 0..2}}
  \cup {[obj |-> o, missing |-> "none", extra |-> FALSE, variant |-> "plain", rows |-> RowsOfIdx(q)] :
       o \in {"list", "none", "dict", "series", "array"}, q \in MultiSeqs(1, 1)}

(* ---- judging recorded outcomes (code -> spec) ---- *)
VARIABLES job, done
Report(name, S) == PrintT(<<"R", name, S>>)
(* a case: [f (frame), res ("ok"|"exc"), exc, o |-> [cols4, dtypes, vals, argsame, newobj, idem, idemwarn]] *)
Judge ==
  LET C == job.cases  K == DOMAIN C IN
  /\ Report("C15_RejectsExactly", {j \in K : (C[j].res = "exc") # Rejects(C[j].f)})
  /\ Report("C15_OnlyAmpycloudError", {j \in K : C[j].res = "exc" /\ C[j].exc # "AmpycloudError"})
  /\ Report("C15_FourColumns", {j \in K : C[j].res = "ok" /\ ~C[j].o.cols4})
  /\ Report("C15_Dtypes", {j \in K : C[j].res = "ok" /\ ~C[j].o.dtypes})
  /\ Report("C15_ValuesUnchanged", {j \in K : C[j].res = "ok" /\ ~C[j].o.vals})
  /\ Report("C15_ArgumentUntouched", {j \in K : ~C[j].o.argsame})
  /\ Report("C15_NewFrame", {j \in K : C[j].res = "ok" /\ ~C[j].o.newobj})
  /\ Report("C15_Idempotent", {j \in K : C[j].res = "ok" /\ ~C[j].o.idem})
  /\ Report("C15_RecheckWarnsNothing", {j \in K : C[j].res = "ok" /\ C[j].o.idemwarn})
  /\ Report("C15_ConstructionRaisesExactly", {j \in K : \E q \in DOMAIN C[j].cons : (C[j].cons[q].res = "exc") # Rejects(C[j].f)})
  /\ Report("C15_ConstructionOnlyAmpycloudError", {j \in K : \E q \in DOMAIN C[j].cons : C[j].cons[q].res = "exc" /\ C[j].cons[q].exc # "AmpycloudError"})
  /\ Report("N_rejected", {j \in K : Rejects(C[j].f)})
  /\ Report("N_alone", {j \in K : Cardinality({x \in {"nf", "em", "mi", "du", "nd", "vv"} :
                                     CASE x = "nf" -> R_NotFrame(C[j].f) [] x = "em" -> R_Empty(C[j].f) [] x = "mi" -> R_Missing(C[j].f)
                                       [] x = "du" -> R_Dup(C[j].f) [] x = "nd" -> R_NoDet(C[j].f) [] x = "vv" -> R_VV(C[j].f)}) = 1})
(* ---- frames produced by utils.mocker.mock_layers (beyond the listed properties, implementation level) ---- *)
(* heights are given by their dense rank inside the frame (-1 = NaN): only order matters here            *)
MeasRows(rows, c, t) == {i \in 1..Len(rows) : rows[i].c = c /\ rows[i].t = t}
MockWellFormed(m) ==
  LET rows == m.rows  f == [obj |-> "df", missing |-> "none", extra |-> FALSE, variant |-> "plain", rows |-> rows] IN
  /\ ~Rejects(f)                                                                    \* accepted by the screening
  /\ \A i \in 1..Len(rows) : (rows[i].h = -1) <=> (rows[i].k = 0)                   \* a non-detection is a type 0 with NaN
  /\ \A i \in 1..Len(rows) :                                                       \* hit types rank the hits of one measurement by height
        LET M == MeasRows(rows, rows[i].c, rows[i].t) IN
        rows[i].k # 0 => /\ {rows[j].k : j \in M} = 1..Cardinality(M)
                         /\ \A j \in M : rows[j].k < rows[i].k => rows[j].h <= rows[i].h
  /\ \A i \in 1..Len(rows) : rows[i].k = 0 => Cardinality(MeasRows(rows, rows[i].c, rows[i].t)) = 1
  /\ Cardinality({rows[i].c : i \in 1..Len(rows)}) = m.nce
  /\ \A c \in {rows[i].c : i \in 1..Len(rows)} : Cardinality({rows[i].t : i \in {j \in 1..Len(rows) : rows[j].c = c}}) = m.npts
MockJudge ==
  /\ Report("I_Mock_WellFormed", {j \in DOMAIN job.mocks : ~MockWellFormed(job.mocks[j])})
  /\ Report("I_Mock_Reproducible", {j \in DOMAIN job.mocks : job.mocks[j].digest # job.mocks[j].digest2})
  /\ Report("N_mocks", DOMAIN job.mocks)
(* parameterised: TLC evaluates every constant-level definition without parameters when it starts, in the judging runs too *)
Export(tier, dir) == JsonSerialize(dir \o "/frames.json",
             SetToSeq(IF tier = "quick" THEN Frames(2, {"plain", "mixedceilo", "floattype"}) \cup Frames(1, Variants)
                      ELSE Frames(3, {"plain"}) \cup Frames(2, Variants)))
Init == job = (IF IOEnv.MODE = "export" THEN [cases |-> <<>>] ELSE JsonDeserialize(IOEnv.JOB_FILE)) /\ done = FALSE
Next == ~done /\ done' = TRUE /\ job' = job /\ (IF IOEnv.MODE = "export" THEN Export(IOEnv.TIER, IOEnv.OUT_DIR) ELSE IF IOEnv.MODE = "mock" THEN MockJudge ELSE Judge)
Spec == Init /\ [][Next]_<<job, done>>
=============================================================================
