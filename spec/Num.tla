------------------------------- MODULE Num -------------------------------
(* Integer arithmetic used by the ampycloud specification.                 *)
(* Heights are integer feet; derived values are scaled integers            *)
(* (base100 = centi-feet, perc4 = 1e-4 %).  A float is represented by its  *)
(* scaled integer plus a deviation sign (see FNum below).                  *)
EXTENDS Integers, Sequences, FiniteSets, TLC, SequencesExt, FiniteSetsExt, Functions

(* the height of a non-detection (NaN) in rows: outside the physical range (-100000, 100000) ft *)
NaNH == -1000000

Min2(a, b) == IF a <= b THEN a ELSE b
Max2(a, b) == IF a >= b THEN a ELSE b
Abs(a)     == IF a < 0 THEN -a ELSE a

SetMin(S) == CHOOSE x \in S : \A y \in S : x <= y
SetMax(S) == CHOOSE x \in S : \A y \in S : x >= y

SortInts(sq) == SortSeq(sq, LAMBDA a, b : a < b)

RECURSIVE SeqSumR(_, _)
SeqSumR(sq, i) == IF i = 0 THEN 0 ELSE sq[i] + SeqSumR(sq, i - 1)
SeqSum(sq) == SeqSumR(sq, Len(sq))

SeqToSet(sq) == {sq[i] : i \in 1..Len(sq)}

(* numpy.percentile(v, P), method 'linear', integer P in 0..100, integer   *)
(* values: the result in 1/100 units.  Virtual index P*(m-1)/100.          *)
PercOfSorted(v, P) ==
  LET m    == Len(v)
      i100 == P * (m - 1)
      lo   == i100 \div 100
      r    == i100 % 100
  IN IF r = 0 THEN 100 * v[lo + 1]
     ELSE 100 * v[lo + 1] + r * (v[lo + 2] - v[lo + 1])

PercOf(hs, P) == PercOfSorted(SortInts(hs), P)

(* ---- floats near a scaled integer: [v |-> scaled integer, d |-> -1|0|1] *)
(* d is the sign of (float - v/scale); comparisons with integers are exact *)
FLt(f, x)  == f.v < x \/ (f.v = x /\ f.d < 0)      \* float <  x
FLe(f, x)  == f.v < x \/ (f.v = x /\ f.d <= 0)     \* float <= x
FGe(f, x)  == ~FLt(f, x)
FGt(f, x)  == ~FLe(f, x)
FOn(f, x)  == f.v = x /\ f.d # 0                   \* within rounding of x but not equal

=============================================================================
