-------------------------------- MODULE Stage --------------------------------
(* The call-order machine explored completely (any sequence of the nine     *)
(* operations, unbounded length): C14 at design level.                      *)
EXTENDS StageOps, TLC
CONSTANT NG                      \* "some" | "zero"
VARIABLES st, last               \* last: outcome of the last call (observation only)
vars == <<st, last>>
View == st

Init == st = StageInit /\ last = "none"
Call(o) == /\ st' = StageNext(st, o[1], o[2], NG)
           /\ last' = IF StageRefuses(st, o[1], o[2], NG) THEN "refused" ELSE "ok"
FindSlices == Call(<<"find_slices", "">>)
FindGroups == Call(<<"find_groups", "">>)
FindLayers == Call(<<"find_layers", "">>)
MetarizeSlices == Call(<<"metarize", "slices">>)
MetarizeGroups == Call(<<"metarize", "groups">>)
MetarizeLayers == Call(<<"metarize", "layers">>)
MsgSlices == Call(<<"metar_msg", "slices">>)
MsgGroups == Call(<<"metar_msg", "groups">>)
MsgLayers == Call(<<"metar_msg", "layers">>)
Next == FindSlices \/ FindGroups \/ FindLayers \/ MetarizeSlices \/ MetarizeGroups \/ MetarizeLayers
        \/ MsgSlices \/ MsgGroups \/ MsgLayers
Spec == Init /\ [][Next]_vars

(* a table exists only together with its id column; stages come in order *)
Inv_Columns == /\ (st.sl # "absent" => st.hs) /\ (st.gr # "absent" => st.hg) /\ (st.la = "present" => st.hl)
Inv_Order   == /\ (st.hg => st.hs) /\ (st.hl => st.hg)
               /\ (st.gr # "absent" => st.sl # "absent") /\ (st.la = "present" => st.gr # "absent")
(* annotation is only ever produced by the next stage *)
Inv_Annot   == /\ (st.sl = "annot" => st.hg) /\ (st.gr = "annot" => st.hl)
(* the layering, once made, is never discarded; a refused call changes nothing *)
Prop_LayeringKept == [][st.la = "present" => st'.la = "present"]_vars
Prop_RefusedIntact == [][last' = "refused" => st' = st]_vars
(* with groups present, the groups table can not be reset once layered *)
Prop_GroupsProtected == [][(NG = "some" /\ st.la = "present" /\ st.gr = "annot") => st'.gr = "annot"]_vars
=============================================================================
