---------------------------- MODULE ExportScenes ----------------------------
EXTENDS Scenes, TLC
Quick == IOEnv.TIER = "quick"
ASSUME IOEnv.WHAT # "layer_tables" \/ Export("layer_tables",
              IF Quick THEN LayerTables({0, 1, 3, 4, 5, 8}, 4) ELSE LayerTables(0..8, 4) \cup LayerTables({0, 2, 4, 6, 8}, 5))
ASSUME IOEnv.WHAT # "layer_tables" \/ Export("high_classes", HighClasses)
ASSUME IOEnv.WHAT # "band_layouts" \/ Export("band_layouts",
              IF Quick THEN BandLayouts(2, GapClasses, {"flat", "thick"}, {"a", "b", "ab"}, {"old", "new", "all"})
                            \cup BandLayouts(3, {"lt", "eq", "gt"}, {"flat"}, {"ab"}, {"old", "new"})
              ELSE BandLayouts(2, GapClasses, {"flat", "thin", "thick"}, {"a", "b", "ab"}, {"old", "new", "all"})
                   \cup BandLayouts(3, GapClasses, {"flat", "thick"}, {"a", "ab"}, {"old", "new", "all"})
                   \cup BandLayouts(4, {"lt", "eq", "gt"}, {"flat"}, {"ab"}, {"old", "new"}))
ASSUME IOEnv.WHAT # "nm_cases" \/ Export("nm_cases", IF Quick THEN NMCases(10, {0, 1, 3}) ELSE NMCases(32, {0, 1, 3}))
ASSUME IOEnv.WHAT # "split_layouts" \/ Export("split_layouts",
   IF Quick THEN SplitLayouts({210, 250, 260, 400}, {0, 300, 500}, {0, 1}, {"asc", "desc", "shuf"}, {100, 50, 30}, {0, 5, 50})
   ELSE SplitLayouts({150, 210, 249, 250, 251, 260, 400, 700}, {0, 100, 300, 500, 800}, {0, 1}, {"asc", "desc", "shuf"}, {100, 70, 50, 30, 10}, {0, 5, 50, 95, 100}))
ASSUME IOEnv.WHAT # "tiesplit_layouts" \/ Export("tiesplit_layouts",
   IF Quick THEN TieSplitLayouts({4, 8}, {240, 250, 260, 300}, {10, 20, 30}, {0, 5, 100})
   ELSE TieSplitLayouts({3, 4, 6, 8}, {230, 240, 250, 260, 280, 300, 400}, {10, 20, 30, 50}, {0, 5, 50, 100}))
=============================================================================
