---------------------------- MODULE ExportScenes ----------------------------
EXTENDS Scenes, TLC
Quick == IOEnv.TIER = "quick"
ASSUME IOEnv.WHAT # "layer_tables" \/ Export("layer_tables",
              IF Quick THEN LayerTables({0, 1, 3, 5, 8}, 4) ELSE LayerTables(0..8, 4) \cup LayerTables({0, 2, 4, 6, 8}, 5))
ASSUME IOEnv.WHAT # "layer_tables" \/ Export("high_classes", HighClasses)
ASSUME IOEnv.WHAT # "band_layouts" \/ Export("band_layouts",
              IF Quick THEN BandLayouts(2, GapClasses, {"flat", "thick"}, {"a", "b", "ab"}, {"old", "new", "all"})
                            \cup BandLayouts(3, {"lt", "eq", "gt"}, {"flat"}, {"ab"}, {"old", "new"})
              ELSE BandLayouts(2, GapClasses, {"flat", "thin", "thick"}, {"a", "b", "ab"}, {"old", "new", "all"})
                   \cup BandLayouts(3, GapClasses, {"flat", "thick"}, {"a", "ab"}, {"old", "new", "all"})
                   \cup BandLayouts(4, {"lt", "eq", "gt"}, {"flat"}, {"ab"}, {"old", "new"}))
=============================================================================
