------------------------------ MODULE TracePlots ------------------------------
(* C20: producing the diagnostic plot is total and has no side effect.  A     *)
(* recorded session is a sequence of plot calls on processed chunks within    *)
(* one process.  Frame conditions of the action Plot(c, opts):                *)
(*   UNCHANGED <<chunk (data, tables, message), rcParams, global parameters>>  *)
(*   show = FALSE => figures' = figures                                       *)
(*   files' = files \cup Requested(opts)   (exactly the requested files)      *)
EXTENDS Integers, Sequences, FiniteSets, Json, IOUtils, TLC, TLCExt
Sessions == JsonDeserialize(IOEnv.TRACE_FILE)
VARIABLES tid, l, fails, marks, cur
tvars == <<tid, l, fails, marks, cur>>
View == <<tid, l>>
Chk(name, cond) == IF cond THEN {} ELSE {name}
Mark(name, cond) == IF cond THEN {name} ELSE {}
ToSet(sq) == {sq[i] : i \in 1..Len(sq)}
Requested(e) == IF e.hasstem THEN {e.fmts[i] : i \in 1..Len(e.fmts)} ELSE {}
StepFails(e) ==
  Chk("C20_Total", e.exc = "") \cup
  Chk("C20_ChunkUntouched", e.chunk_after = e.chunk_before) \cup
  Chk("C20_RcParamsUntouched", e.rc_after = e.rc_before /\ e.rc_changed = 0) \cup
  Chk("C20_GlobalPrmsUntouched", e.g_after = e.g_before) \cup
  Chk("C20_NoFigureLeftOpen", ~e.show => e.figs_after = e.figs_before) \cup
  Chk("C20_ExactlyRequestedFiles", e.exc # "" \/ ToSet(e.newfiles) = Requested(e)) \cup
  Chk("C20_NoOtherFileTouched", e.otherfiles = 0)
StepMarks(e) ==
  Mark("N_" \o e.upto, TRUE) \cup Mark("N_class_" \o e.cls, TRUE) \cup Mark("N_save", e.hasstem) \cup Mark("N_show", e.show) \cup Mark("N_glob_" \o e.glob, TRUE)
  \cup Mark("N_refmetar", e.hasref) \cup Mark("N_showceilos", e.show_ceilos) \cup Mark("N_multifmt", Len(e.fmts) > 1)
Init == LET all == Sessions IN \E i \in DOMAIN all : tid = i /\ cur = all[i] /\ l = 0 /\ fails = {} /\ marks = {}
Next == /\ l < Len(cur.events)
        /\ l' = l + 1 /\ tid' = tid /\ cur' = cur
        /\ fails' = StepFails(cur.events[l + 1]) /\ marks' = StepMarks(cur.events[l + 1])
        /\ PrintT(<<"V", cur.tid, l + 1, fails', marks'>>)
Spec == Init /\ [][Next]_tvars
=============================================================================
