------------------------------ MODULE StageOps ------------------------------
(* The call-order machine of a CeiloChunk as pure operators: abstract state *)
(*   sl, gr : "absent" | "fresh" | "annot"   (slices / groups table; annot = *)
(*            the isolated / ncomp column has been filled by the next stage) *)
(*   la     : "absent" | "present"           (layers table)                  *)
(*   hs, hg, hl : the per-hit id column exists                               *)
(* ng: whether the data set yields at least one group ("some") or none.     *)
(* Operations: find_slices, find_groups, find_layers, metarize(w),           *)
(* metar_msg(w) for w in slices/groups/layers.                               *)
EXTENDS Naturals, Sequences

WS == {"slices", "groups", "layers"}
Ops == {<<"find_slices", "">>, <<"find_groups", "">>, <<"find_layers", "">>}
       \cup {<<"metarize", w>> : w \in WS} \cup {<<"metar_msg", w>> : w \in WS}

StageInit == [sl |-> "absent", gr |-> "absent", la |-> "absent", hs |-> FALSE, hg |-> FALSE, hl |-> FALSE]

(* a call is refused (AmpycloudError, nothing changed) exactly when a        *)
(* prerequisite is missing or when it would discard the layering            *)
StageRefuses(s, op, arg, ng) ==
  \/ op = "find_groups" /\ (s.sl = "absent" \/ s.la = "present")
  \/ op = "find_layers" /\ s.gr = "absent"
  \/ op = "metarize" /\ arg = "slices" /\ ~s.hs
  \/ op = "metarize" /\ arg = "groups" /\ (~s.hg \/ (s.la = "present" /\ ng = "some"))
  \/ op = "metarize" /\ arg = "layers" /\ ~s.hl
  \/ op = "metar_msg" /\ arg = "slices" /\ s.sl = "absent"
  \/ op = "metar_msg" /\ arg = "groups" /\ s.gr = "absent"
  \/ op = "metar_msg" /\ arg = "layers" /\ s.la = "absent"

StageNext(s, op, arg, ng) ==
  IF StageRefuses(s, op, arg, ng) THEN s
  ELSE IF op = "find_slices" THEN [s EXCEPT !.hs = TRUE, !.sl = "fresh"]
  ELSE IF op = "find_groups" THEN [s EXCEPT !.hg = TRUE, !.sl = "annot", !.gr = "fresh"]
  ELSE IF op = "find_layers" THEN [s EXCEPT !.hl = TRUE, !.gr = "annot", !.la = "present"]
  ELSE IF op = "metarize" /\ arg = "slices" THEN [s EXCEPT !.sl = "fresh"]      \* FindSlicesResetsIsolated
  ELSE IF op = "metarize" /\ arg = "groups" THEN [s EXCEPT !.gr = "fresh"]      \* MetarizeGroupsResetsNcomp
  ELSE IF op = "metarize" /\ arg = "layers" THEN [s EXCEPT !.la = "present"]
  ELSE s                                                                      \* metar_msg is a pure query
=============================================================================
