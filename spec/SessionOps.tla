----------------------------- MODULE SessionOps -----------------------------
(* One Python process using ampycloud: the global NumPy random state, the    *)
(* results obtained so far, what the user does in between.  Actions:          *)
(*   ampycloud actions : run(d, p), demo (canonical demo data), tmpok /       *)
(*                       tmpraise (the temporary-seed helper, body returning   *)
(*                       or raising)                                          *)
(*   user actions      : seed(v) (np.random.seed), draw (np.random.random),   *)
(*                       gauss (np.random.normal)                             *)
(* C09: an ampycloud action never changes the random state; the result of     *)
(* run(d, p) is a function of (d, p) alone.                                   *)
EXTENDS Integers, Sequences, FiniteSets
AmpyActs == {"run", "demo", "tmpok", "tmpraise", "gmm"}       \* gmm: layer.ncomp_from_gmm called directly with an explicit seed (0 included)
UserActs == {"seed", "draw", "gauss"}      \* gauss: np.random.normal draws (an odd count leaves a cached deviate in the state)
NoResult == -1
(* property clauses on an observed step: rb / ra = digests of the random state before / after *)
C09_RngUntouched(e) == e.act \in AmpyActs => e.ra = e.rb
C09_NoException(e) == e.exc = ""
C09_SameAsBefore(seen, e) == (e.act \in {"run", "demo", "gmm"} /\ <<e.d, e.p>> \in DOMAIN seen) => e.res = seen[<<e.d, e.p>>]
C09_SameAsReference(ref, e) == (e.act \in {"run", "demo", "gmm"}) => e.res = ref[e.d + 1][e.p + 1]
Remember(seen, e) == IF e.act \in {"run", "demo", "gmm"} /\ <<e.d, e.p>> \notin DOMAIN seen
                     THEN [k \in DOMAIN seen \cup {<<e.d, e.p>>} |-> IF k = <<e.d, e.p>> THEN e.res ELSE seen[k]]
                     ELSE seen
=============================================================================
