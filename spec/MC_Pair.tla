------------------------------ MODULE MC_Pair ------------------------------
(* Relational properties at design level, on the frames of an MC_Chunk      *)
(* instance: invariance of the cropping under substitutions above the limit *)
(* (C07), independence of index labels (C10: positional versus label-based  *)
(* selection), invariance of tables under renaming of ceilometers (C16).    *)
EXTENDS MC_Chunk
CONSTANTS NewHeights, NewNames

PairNext == Construct
PairSpec == Init /\ [][PairNext]_vars

(* ---- C07 ---- *)
AboveIdx(rows, p) == {i \in Idx(rows) : IsAbove(rows[i], p)}
Substs(rows, p) ==      \* every replacement of the heights above the limit by other heights above it
  {[i \in Idx(rows) |-> IF i \in AboveIdx(rows, p) THEN [rows[i] EXCEPT !.h = f[i]] ELSE rows[i]] :
       f \in [AboveIdx(rows, p) -> {h \in NewHeights : h > Lim(p)}]}
Inv_C07_CropInvariant ==
  pc = "built" /\ prm.hasmsa =>
     \A rb \in Substs(raw, prm) : /\ Crop(rb, prm) = data
                                  /\ HighFlag(rb, prm) = flag
                                  /\ C07_Kept(Crop(rb, prm), raw, prm)
Inv_C07_Blanked ==      \* replacing the hits above the limit by non-detections is what the cropping does
  pc = "built" => /\ NAbove(data, prm) = 0 /\ Crop(data, prm) = data
                  /\ (prm.hasmsa => Cardinality({i \in Idx(data) : data[i].h # NaNH /\ data[i].h > Lim(prm)}) = 0)

(* ---- C10: rows carry index labels; selection by label hits every row with that label ---- *)
LabelSeqs(n) == {[i \in 1..n |-> i], [i \in 1..n |-> ((i - 1) % 2) + 1], [i \in 1..n |-> 1], [i \in 1..n |-> n + 1 - i]}
CropByLabel(rows, lab, p) ==
  LET blankL == {lab[i] : i \in {j \in Idx(rows) : IsAbove(rows[j], p) /\ rows[j].k <= 1}}
      dropL  == {lab[i] : i \in {j \in Idx(rows) : IsAbove(rows[j], p) /\ rows[j].k > 1}}
      step1  == [i \in Idx(rows) |-> IF lab[i] \in blankL THEN [rows[i] EXCEPT !.h = NaNH, !.k = 0] ELSE rows[i]]
      keepI  == SelectSeq([i \in Idx(rows) |-> i], LAMBDA i : lab[i] \notin dropL)
  IN [j \in Idx(keepI) |-> step1[keepI[j]]]
Unique(lab) == \A i, j \in Idx(lab) : i # j => lab[i] # lab[j]
Inv_C10_UniqueLabels == pc = "built" => \A lab \in LabelSeqs(Len(raw)) : Unique(lab) => CropByLabel(raw, lab, prm) = data
(* pinned tree (selection through the caller's labels): expected to be violated with repeated labels *)
Inv_C10_AnyLabels == pc = "built" => \A lab \in LabelSeqs(Len(raw)) : CropByLabel(raw, lab, prm) = data

(* ---- C16 ---- *)
Bijections == {f \in [Ceilos -> NewNames] : \A a, b \in Ceilos : a # b => f[a] # f[b]}
Ren(f, rows) == [i \in Idx(rows) |-> [rows[i] EXCEPT !.c = f[rows[i].c]]]
RenPrm(f, p) == [p EXCEPT !.excl = [j \in Idx(p.excl) |-> IF p.excl[j] \in Ceilos THEN f[p.excl[j]] ELSE p.excl[j]]]
Inv_C16_Tables ==
  pc = "built" =>
     \A f \in Bijections : \A lab \in SliceLabelings(data) :
        LET d2 == Ren(f, data) IN
        /\ SliceIds(d2, lab) = SliceIds(data, lab)
        /\ Table(d2, SliceIds(d2, lab), RenPrm(f, prm), 1) = Table(data, SliceIds(data, lab), prm, 1)
=============================================================================
