---- MODULE Params_TTrace_1790966644 ----
EXTENDS Sequences, TLCExt, Toolbox, Params, Naturals, TLC

_expression ==
    LET Params_TEExpression == INSTANCE Params_TEExpression
    IN Params_TEExpression!expression
----

_trace ==
    LET Params_TETrace == INSTANCE Params_TETrace
    IN Params_TETrace!trace
----

_inv ==
    ~(
        TLCGet("level") = Len(_TETrace)
        /\
        s = ([lid |-> [G |-> 1, S1 |-> 2, S2 |-> 2, U1 |-> 3, U2 |-> 4], t |-> [G |-> [sep |-> <<0, 0>>, msa |-> 0, thr |-> 0, mr |-> 0], S1 |-> [sep |-> <<2, 2>>, msa |-> 0, thr |-> 0, mr |-> 0], S2 |-> [sep |-> <<2, 2>>, msa |-> 0, thr |-> 0, mr |-> 0], U1 |-> [sep |-> <<2, 2>>, msa |-> 0, thr |-> 0, mr |-> 0], U2 |-> [sep |-> <<0, 0>>, msa |-> 0, thr |-> 0, mr |-> 0]], built |-> <<TRUE, TRUE>>, has |-> [U1 |-> {"sep"}, U2 |-> {}]])
        /\
        act = ([u |-> 1, v |-> 2, op |-> "setcaller", has |-> {"sep"}, c |-> 0, path |-> ""])
    )
----

_init ==
    /\ s = _TETrace[1].s
    /\ act = _TETrace[1].act
----

_next ==
    /\ \E i,j \in DOMAIN _TETrace:
        /\ \/ /\ j = i + 1
              /\ i = TLCGet("level")
        /\ s  = _TETrace[i].s
        /\ s' = _TETrace[j].s
        /\ act  = _TETrace[i].act
        /\ act' = _TETrace[j].act

\* Uncomment the ASSUME below to write the states of the error trace
\* to the given file in Json format. Note that you can pass any tuple
\* to `JsonSerialize`. For example, a sub-sequence of _TETrace.
    \* ASSUME
    \*     LET J == INSTANCE Json
    \*         IN J!JsonSerialize("Params_TTrace_1790966644.json", _TETrace)

=============================================================================

 Note that you can extract this module `Params_TEExpression`
  to a dedicated file to reuse `expression` (the module in the 
  dedicated `Params_TEExpression.tla` file takes precedence 
  over the module `Params_TEExpression` below).

---- MODULE Params_TEExpression ----
EXTENDS Sequences, TLCExt, Toolbox, Params, Naturals, TLC

expression == 
    [
        \* To hide variables of the `Params` spec from the error trace,
        \* remove the variables below.  The trace will be written in the order
        \* of the fields of this record.
        s |-> s
        ,act |-> act
        
        \* Put additional constant-, state-, and action-level expressions here:
        \* ,_stateNumber |-> _TEPosition
        \* ,_sUnchanged |-> s = s'
        
        \* Format the `s` variable as Json value.
        \* ,_sJson |->
        \*     LET J == INSTANCE Json
        \*     IN J!ToJson(s)
        
        \* Lastly, you may build expressions over arbitrary sets of states by
        \* leveraging the _TETrace operator.  For example, this is how to
        \* count the number of times a spec variable changed up to the current
        \* state in the trace.
        \* ,_sModCount |->
        \*     LET F[s \in DOMAIN _TETrace] ==
        \*         IF s = 1 THEN 0
        \*         ELSE IF _TETrace[s].s # _TETrace[s-1].s
        \*             THEN 1 + F[s-1] ELSE F[s-1]
        \*     IN F[_TEPosition - 1]
    ]

=============================================================================



Parsing and semantic processing can take forever if the trace below is long.
 In this case, it is advised to uncomment the module below to deserialize the
 trace from a generated binary file.

\*
\*---- MODULE Params_TETrace ----
\*EXTENDS IOUtils, Params, TLC
\*
\*trace == IODeserialize("Params_TTrace_1790966644.bin", TRUE)
\*
\*=============================================================================
\*

---- MODULE Params_TETrace ----
EXTENDS Params, TLC

trace == 
    <<
    ([s |-> [lid |-> [G |-> 1, S1 |-> 2, S2 |-> 3, U1 |-> 4, U2 |-> 5], t |-> [G |-> [sep |-> <<0, 0>>, msa |-> 0, thr |-> 0, mr |-> 0], S1 |-> [sep |-> <<0, 0>>, msa |-> 0, thr |-> 0, mr |-> 0], S2 |-> [sep |-> <<0, 0>>, msa |-> 0, thr |-> 0, mr |-> 0], U1 |-> [sep |-> <<0, 0>>, msa |-> 0, thr |-> 0, mr |-> 0], U2 |-> [sep |-> <<0, 0>>, msa |-> 0, thr |-> 0, mr |-> 0]], built |-> <<FALSE, FALSE>>, has |-> [U1 |-> {}, U2 |-> {}]],act |-> [u |-> 0, v |-> 0, op |-> "", has |-> {}, c |-> 0, path |-> ""]]),
    ([s |-> [lid |-> [G |-> 1, S1 |-> 2, S2 |-> 3, U1 |-> 4, U2 |-> 5], t |-> [G |-> [sep |-> <<0, 0>>, msa |-> 0, thr |-> 0, mr |-> 0], S1 |-> [sep |-> <<0, 0>>, msa |-> 0, thr |-> 0, mr |-> 0], S2 |-> [sep |-> <<0, 0>>, msa |-> 0, thr |-> 0, mr |-> 0], U1 |-> [sep |-> <<2, 2>>, msa |-> 0, thr |-> 0, mr |-> 0], U2 |-> [sep |-> <<0, 0>>, msa |-> 0, thr |-> 0, mr |-> 0]], built |-> <<FALSE, FALSE>>, has |-> [U1 |-> {"sep"}, U2 |-> {}]],act |-> [u |-> 1, v |-> 2, op |-> "setcaller", has |-> {"sep"}, c |-> 0, path |-> ""]]),
    ([s |-> [lid |-> [G |-> 1, S1 |-> 2, S2 |-> 3, U1 |-> 3, U2 |-> 4], t |-> [G |-> [sep |-> <<0, 0>>, msa |-> 0, thr |-> 0, mr |-> 0], S1 |-> [sep |-> <<0, 0>>, msa |-> 0, thr |-> 0, mr |-> 0], S2 |-> [sep |-> <<2, 2>>, msa |-> 0, thr |-> 0, mr |-> 0], U1 |-> [sep |-> <<2, 2>>, msa |-> 0, thr |-> 0, mr |-> 0], U2 |-> [sep |-> <<0, 0>>, msa |-> 0, thr |-> 0, mr |-> 0]], built |-> <<FALSE, TRUE>>, has |-> [U1 |-> {"sep"}, U2 |-> {}]],act |-> [u |-> 1, v |-> 0, op |-> "construct", has |-> {}, c |-> 2, path |-> ""]]),
    ([s |-> [lid |-> [G |-> 1, S1 |-> 2, S2 |-> 2, U1 |-> 2, U2 |-> 3], t |-> [G |-> [sep |-> <<0, 0>>, msa |-> 0, thr |-> 0, mr |-> 0], S1 |-> [sep |-> <<2, 2>>, msa |-> 0, thr |-> 0, mr |-> 0], S2 |-> [sep |-> <<2, 2>>, msa |-> 0, thr |-> 0, mr |-> 0], U1 |-> [sep |-> <<2, 2>>, msa |-> 0, thr |-> 0, mr |-> 0], U2 |-> [sep |-> <<0, 0>>, msa |-> 0, thr |-> 0, mr |-> 0]], built |-> <<TRUE, TRUE>>, has |-> [U1 |-> {"sep"}, U2 |-> {}]],act |-> [u |-> 1, v |-> 0, op |-> "construct", has |-> {}, c |-> 1, path |-> ""]]),
    ([s |-> [lid |-> [G |-> 1, S1 |-> 2, S2 |-> 2, U1 |-> 3, U2 |-> 4], t |-> [G |-> [sep |-> <<0, 0>>, msa |-> 0, thr |-> 0, mr |-> 0], S1 |-> [sep |-> <<2, 2>>, msa |-> 0, thr |-> 0, mr |-> 0], S2 |-> [sep |-> <<2, 2>>, msa |-> 0, thr |-> 0, mr |-> 0], U1 |-> [sep |-> <<2, 2>>, msa |-> 0, thr |-> 0, mr |-> 0], U2 |-> [sep |-> <<0, 0>>, msa |-> 0, thr |-> 0, mr |-> 0]], built |-> <<TRUE, TRUE>>, has |-> [U1 |-> {"sep"}, U2 |-> {}]],act |-> [u |-> 1, v |-> 2, op |-> "setcaller", has |-> {"sep"}, c |-> 0, path |-> ""]])
    >>
----


=============================================================================

---- CONFIG Params_TTrace_1790966644 ----
CONSTANTS
    Acts <- ActionsMC
    MaxDepth = 4

INVARIANT
    _inv

CHECK_DEADLOCK
    \* CHECK_DEADLOCK off because of PROPERTY or INVARIANT above.
    FALSE

INIT
    _init

NEXT
    _next

CONSTANT
    _TETrace <- _trace

ALIAS
    _expression
=============================================================================
\* Generated on Fri Oct 02 18:44:07 UTC 2026