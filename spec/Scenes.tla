------------------------------- MODULE Scenes -------------------------------
(* Scenario descriptors enumerated by TLC and concretised by the drivers    *)
(* (spec -> code direction).  Every family is a finite set defined here;    *)
(* the driver receives it through JsonSerialize and reports how many of the *)
(* descriptors the real pipeline realised as intended.                      *)
EXTENDS Num, Json, IOUtils

(* ---- F2: abstract layer tables ----------------------------------------- *)
(* a table = okta value per layer from the lowest to the highest; the MSA   *)
(* is absent, below every layer, exactly at the base of layer i, between    *)
(* layer i and i+1 (i = n: above all layers), and the hits cropped above    *)
(* MSA+buffer number 0, MAX_HITS_OKTA0 or MAX_HITS_OKTA0+1.                 *)
RECURSIVE SeqsOver(_, _)
SeqsOver(S, n) == IF n = 0 THEN {<<>>} ELSE {Append(q, x) : q \in SeqsOver(S, n - 1), x \in S}
SeqsUpTo(S, n) == UNION {SeqsOver(S, k) : k \in 0..n}
MsaPositions(n) == {[kind |-> "none", i |-> 0], [kind |-> "below", i |-> 0]}
                   \cup {[kind |-> "at", i |-> i] : i \in 1..n}
                   \cup {[kind |-> "between", i |-> i] : i \in 1..n}
LayerTables(OktaClasses, maxLayers) ==
  UNION {{[oktas |-> q, msa |-> mp] : mp \in MsaPositions(Len(q))} : q \in SeqsUpTo(OktaClasses, maxLayers)}
(* crossed by the driver, round-robin, with the classes of hits above MSA+buffer *)
HighClasses == {[h0 |-> h0, high |-> hc] : h0 \in {0, 1}, hc \in {"zero", "h0", "h0p1"}}

(* ---- F3: band layouts for merging / splitting -------------------------- *)
(* bands from the lowest up; gap class between consecutive bands relative   *)
(* to the minimum separation; per band: thickness class, which ceilometers  *)
(* own it, whether its hits are old, recent or spread (look-back)           *)
GapClasses == {"lt", "eq", "gt", "far"}
BandLayouts(nb, Gaps, Thick, Owners, Ages) ==
  {[gaps |-> g, thick |-> th, own |-> ow, age |-> ag] :
      g \in SeqsOver(Gaps, nb - 1), th \in SeqsOver(Thick, nb), ow \in SeqsOver(Owners, nb), ag \in SeqsOver(Ages, nb)}

(* ---- F7 (pipeline form): one flat layer with n hits out of m measurements - *)
NMCases(maxM, Bufs) == {[n |-> n, m |-> m, h0 |-> a, h8 |-> b, dup |-> d, nce |-> c] :
                          m \in 1..maxM, n \in 0..maxM, a \in Bufs, b \in Bufs, d \in BOOLEAN, c \in {1, 2}} \ 
                       {x \in [n : 0..maxM, m : 1..maxM, h0 : Bufs, h8 : Bufs, dup : BOOLEAN, nce : {1, 2}] : x.n > x.m \/ (x.nce = 2 /\ x.m < 2)}

(* ---- F3b: one group made of two or three levels (mixture model engaged) - *)
(* the second level sits `gap` above the first for its recent hits and      *)
(* `old` higher for its oldest hits (drift); an optional third level        *)
SplitLayouts(Gaps, Olds, Thirds, Orders, LBs, Ps) ==
  {[gap |-> g, old |-> o, third |-> t, order |-> r, lb |-> lb, p |-> p] :
      g \in Gaps, o \in Olds, t \in Thirds, r \in Orders, lb \in LBs, p \in Ps}

(* ---- F3d: a two-level group seen by several ceilometers at coincident times (ties in the time order) ---- *)
TieSplitLayouts(NCs, Gaps, LBs, Ps) == {[nce |-> n, gap |-> g, lb |-> lb, p |-> p] : n \in NCs, g \in Gaps, lb \in LBs, p \in Ps}

Export(name, S) == JsonSerialize(IOEnv.OUT_DIR \o "/" \o name \o ".json", SetToSeq(S))
=============================================================================
