----------------------------- MODULE TraceChunk -----------------------------
(* Batch validation of recorded executions of the real code against the     *)
(* specification.  One initial state per recorded trace, one step per       *)
(* recorded call.  Verdicts are total: every step yields the set of failing *)
(* clauses (property level "Cxx_*", implementation level "I_*") and the set *)
(* of non-trivial situations it exercised ("N_*"), printed as one line.     *)
EXTENDS Props, StageOps, Json, IOUtils, TLCExt

Traces == JsonDeserialize(IOEnv.TRACE_FILE)

VARIABLES tid, l, fails, marks, cur,    \* cur: the recorded trace being replayed (read once)
          stg                          \* state of the call-order machine (StageOps), stepped by the spec
tvars == <<tid, l, fails, marks, cur, stg>>
View == <<tid, l>>

Chk(name, cond) == IF cond THEN {} ELSE {name}
Mark(name, cond) == IF cond THEN {name} ELSE {}
W == {"slices", "groups", "layers"}
F(w) == IF w = "slices" THEN "s" ELSE IF w = "groups" THEN "g" ELSE "l"

T(i) == cur
Pre(i, k)  == IF k = 1 THEN [data |-> <<>>, flag |-> FALSE,
                              has |-> [s |-> FALSE, g |-> FALSE, l |-> FALSE],
                              ids |-> [s |-> <<>>, g |-> <<>>, l |-> <<>>],
                              hast |-> [slices |-> FALSE, groups |-> FALSE, layers |-> FALSE],
                              tbl |-> [slices |-> <<>>, groups |-> <<>>, layers |-> <<>>],
                              nrep |-> [slices |-> -1, groups |-> -1, layers |-> -1]]
              ELSE T(i).events[k - 1]

(* ---------------- per-table clauses (C03, C04, C05, C17 binding) -------- *)
TableFails(tb, idv, d, prm, nrep, full, coded) ==        \* coded: the scene is in the range [0, 100000) ft for which codes are defined
  LET R == Idx(tb) IN
  Chk("C03_Count",  \A r \in R : C03_Count(tb[r], d, idv)) \cup
  Chk("C03_Perc",   \A r \in R : C03_Perc(tb[r], d)) \cup
  Chk("C03_Okta",   \A r \in R : C03_Okta(tb[r], d, prm)) \cup
  Chk("C03_Prefix", \A r \in R : C03_Prefix(tb[r])) \cup
  Chk("I_OktaHalfEven", \A r \in R : tb[r].okta = Okta(tb[r].n, TotalMeas(d), prm.h0, prm.h8)) \cup
  Chk("C04_Base",   \A r \in R : C04_Base(tb[r], d, idv, prm)) \cup
  Chk("I_BaseSel",  \A r \in R : tb[r].b.v \in BaseSetSel(d, MemIdx(idv, tb[r].cid), prm)) \cup
  Chk("C04_Inside", \A r \in R : C04_Inside(tb[r])) \cup
  Chk("C04_MinMax", \A r \in R : C04_MinMax(tb[r], d, idv)) \cup
  Chk("C04_Mean",   \A r \in R : C04_Mean(tb[r], d, idv)) \cup
  Chk("C04_Std",    \A r \in R : C04_Std(tb[r], d, idv)) \cup
  (IF full THEN Chk("C04_Fluff", \A r \in R : C04_Fluff(tb[r])) ELSE {}) \cup
  (IF coded THEN Chk("C04_Digits", \A r \in R : C04_Digits(tb[r])) \cup Chk("C04_NeverUp", \A r \in R : C04_NeverUp(tb[r])) ELSE {}) \cup
  Chk("C04_Sorted", C04_Sorted(tb)) \cup
  Chk("C05_TableMatchesIds", C05_TableMatchesIds(tb, idv, nrep)) \cup
  Chk("C05_PartitionOne", C05_PartitionOne(d, idv)) \cup
  Chk("C17_Rule",   SigRuleHolds([r \in R |-> tb[r].okta], [r \in R |-> tb[r].sig])) \cup
  Chk("I_SigFold",  [r \in R |-> tb[r].sig] = SigFlags([r \in R |-> tb[r].okta]))

TableMarks(tb, idv, d, prm) ==
  LET R == Idx(tb) IN
  Mark("N_rows", R # {}) \cup
  Mark("N_multihit", \E r \in R : Cardinality(MemIdx(idv, tb[r].cid)) > tb[r].n) \cup
  Mark("N_okta0buf", \E r \in R : tb[r].okta = 0 /\ tb[r].n > 0) \cup
  Mark("N_okta8buf", \E r \in R : tb[r].okta = 8 /\ tb[r].n < TotalMeas(d)) \cup
  Mark("N_oktatie", \E r \in R : Cardinality(OktaSet(tb[r].n, TotalMeas(d), prm.h0, prm.h8)) > 1) \cup
  Mark("N_lookback", \E r \in R : LET n == Cardinality(Selected(d, MemIdx(idv, tb[r].cid), prm))
                                        k == WindowLen(n, prm.lb) IN k > 0 /\ k < n) \cup
  Mark("N_baseties", \E r \in R : ~TieFree(d, Selected(d, MemIdx(idv, tb[r].cid), prm), prm.lb)) \cup
  Mark("N_excl", \E r \in R : Selected(d, MemIdx(idv, tb[r].cid), prm) # MemIdx(idv, tb[r].cid)) \cup
  Mark("N_fallback", prm.excl # <<>> /\ \E r \in R : LET I == MemIdx(idv, tb[r].cid) IN
                         Filtered(d, I, prm) # I /\ Selected(d, I, prm) = I) \cup
  Mark("N_interp", \E r \in R : tb[r].b.v % 100 # 0) \cup
  Mark("N_nearboundary", \E r \in R : LET q == IF tb[r].b.v <= 1000000 THEN 10000 ELSE 100000 IN
                                         (tb[r].b.v % q) \in ((q - 10)..(q - 1)) \cup (1..10)) \cup
  Mark("N_above10k", \E r \in R : tb[r].b.v > 1000000) \cup
  Mark("N_floattie", \E r \in R : tb[r].b.d # 0) \cup
  Mark("N_4sig", Cardinality({r \in R : tb[r].okta >= 1}) >= 4) \cup
  Mark("N_unsig", \E r \in R : tb[r].okta >= 1 /\ ~tb[r].sig)

(* ---------------- per-event clauses ------------------------------------- *)
StateIntact(pre, post) ==
  /\ post.data = pre.data /\ post.flag = pre.flag /\ post.has = pre.has /\ post.ids = pre.ids
  /\ post.hast = pre.hast /\ post.tbl = pre.tbl

ConstructFails(tr, post) ==
  LET prm == tr.prm  raw == tr.raw  d == post.data IN
  Chk("C07_Flag", C07_Flag(post.flag, raw, prm)) \cup
  Chk("C07_Kept", C07_Kept(d, raw, prm)) \cup
  Chk("C07_NoMsa", C07_NoMsa(d, post.flag, raw, prm)) \cup
  Chk("C07_NoMsaRequested", tr.desc.nomsa => (~prm.hasmsa /\ d = raw /\ post.flag = FALSE)) \cup
  Chk("C05_NoHitAltered", C05_NoHitAltered(d, raw, prm)) \cup
  Chk("I_CropSeq", d = Crop(raw, prm))
ConstructMarks(tr, post) ==
  LET prm == tr.prm  raw == tr.raw IN
  Mark("N_crop", NAbove(raw, prm) > 0) \cup
  Mark("N_flag", post.flag) \cup
  Mark("N_atlimit", prm.hasmsa /\ \E i \in Idx(raw) : raw[i].h = Lim(prm)) \cup
  Mark("N_cropdrop", \E i \in Idx(raw) : IsAbove(raw[i], prm) /\ raw[i].k > 1) \cup
  Mark("N_flagedge", prm.hasmsa /\ NAbove(raw, prm) \in {prm.h0, prm.h0 + 1})

SliceImpl(ev, post) ==
  Chk("I_SliceIds", Len(ev.taps.clu) = 1 => (Len(ev.taps.clu[1]) = Cardinality(Valid(post.data)) /\ post.ids.s = SliceIds(post.data, ev.taps.clu[1]))) \cup     \* taps that do not line up with the valid hits: the clause fails, the judge goes on
  Chk("I_SliceFew", Len(ev.taps.clu) = 0 => (Cardinality(Valid(post.data)) <= 1 /\ post.ids.s = SliceIds(post.data, <<>>)))

(* merge of close groups: compare with the operator when every base is determined *)
AllTieFree(d, g, prm) == \A id \in IdsPresent(g) : TieFree(d, Selected(d, MemIdx(g, id), prm), prm.lb)
                                                   /\ TieFree(d, MemIdx(g, id), prm.lb)
(* bundles of overlapping slices, isolation flags, majority vote: the pre-merge grouping is a function of the *)
(* slices table and of the per-bundle clusterings (skipped when a limit comparison sits exactly on a tie)    *)
BundleImpl(ev, post, prm) ==
  LET st == post.tbl.slices IN
  IF prm.pad < 0 \/ ~ev.taps.hasg0 \/ AnyOverlapTie(st, prm.pad) THEN {}
  ELSE LET pm == PreMergeGrouping(post.data, post.ids.s, st, prm.pad, ev.taps.clu) IN
       Chk("I_Isolated", \A i \in Idx(st) : st[i].x = (IF IsolatedSlice(st, i, prm.pad) THEN 1 ELSE 0)) \cup
       Chk("I_BundleTaps", pm.ok) \cup
       (IF pm.ok THEN Chk("I_PreMergeGrouping", pm.g = ev.taps.g0) ELSE {})
GroupImpl(ev, post, prm) ==
  IF ~ev.taps.hasg0 THEN {}
  ELSE LET d == post.data  g0 == ev.taps.g0 IN
       BundleImpl(ev, post, prm) \cup
       Chk("I_G1Logged", post.ids.g = ev.taps.g1) \cup
       (IF AllTieFree(d, g0, prm) /\ AllTieFree(d, post.ids.g, prm)
           /\ ~MergeTies(d, g0, PrelimTable(d, g0, prm), prm, TRUE)
        THEN Chk("I_MergeClose", post.ids.g = MergeClose(d, g0, prm, TRUE)) ELSE {})
GroupMarks(ev, post, prm) ==
  Mark("N_merge", ev.taps.hasg0 /\ ev.taps.g0 # ev.taps.g1) \cup
  Mark("N_bundle", prm.pad >= 0 /\ Len(Bundles(post.tbl.slices, prm.pad)) > 0) \cup
  Mark("N_bundlecut", ev.taps.hasg0 /\ \E i, j \in Idx(post.data) : post.ids.s[i] = post.ids.s[j] /\ ev.taps.g0[i] # ev.taps.g0[j]) \cup
  Mark("N_2groups", Len(post.tbl.groups) >= 2) \cup
  Mark("N_sepbin2", \E i \in Idx(post.tbl.groups) : MinSepIdx(post.tbl.groups[i].b, prm) > 1)

(* layering: the mixture taps are listed for the groups that were not skipped, in table order *)
NotSkipped(post, prm) ==
  LET gt == post.tbl.groups IN SelectSeq([r \in Idx(gt) |-> r], LAMBDA r : gt[r].x # -1)
NoRemerge(ev, post, prm) ==
  LET gt == post.tbl.groups   ns == NotSkipped(post, prm)
      pos(r) == CHOOSE j \in Idx(ns) : ns[j] = r
  IN [r \in Idx(gt) |->
        IF gt[r].x < 2 THEN FALSE
        ELSE IF Len(ev.taps.gmm) = Len(ns) THEN ev.taps.gmm[pos(r)].nraw = gt[r].x
        ELSE gt[r].x = NcompMax(post.data, post.ids.g, gt[r])]
LayerImpl(ev, post, prm) ==
  LET gt == post.tbl.groups  d == post.data  g == post.ids.g
      ns == NotSkipped(post, prm)
      off == LayerOffset(g, TRUE)
  IN Chk("I_SkipRule", \A r \in Idx(gt) : (gt[r].x = -1) <=> SkipLayering(d, g, gt[r], prm)) \cup
     (IF Len(ev.taps.gmm) = Len(ns) /\ ev.op = "find_layers"
      THEN Chk("I_LayerIds",
             \A j \in Idx(ns) :
               LET r == ns[j]  tp == ev.taps.gmm[j]
                   LabOf(h) == LET q == CHOOSE q \in Idx(tp.hl) : tp.hl[q][1] = h IN tp.hl[q][2]
               IN /\ tp.nfin = gt[r].x
                  /\ {tp.hl[q][1] : q \in Idx(tp.hl)} = HeightSet(d, MemIdx(g, gt[r].cid))
                  /\ \A i \in MemIdx(g, gt[r].cid) :
                       post.ids.l[i] = (IF tp.nfin > 1 THEN LayerId(off, r, LabOf(d[i].h)) ELSE g[i]))
      ELSE {}) \cup
     Chk("I_BestGmmDelta", \A j \in Idx(ev.taps.gmm) :
            LET sl == ev.taps.gmm[j].sel IN
            (sl.mode = "delta" /\ sl.exact /\ Len(sl.ab10) >= 1 /\ BestDeltaClear(sl.ab10, sl.gain100)) => sl.best = BestDelta(sl.ab10, sl.gain100)) \cup
     Chk("I_UnsplitKeepGid", \A r \in Idx(gt) : gt[r].x < 2 =>
                                \A i \in MemIdx(g, gt[r].cid) : post.ids.l[i] = g[i])
LayerMarks(ev, post, prm) ==
  LET gt == post.tbl.groups IN
  Mark("N_split", \E r \in Idx(gt) : gt[r].x >= 2) \cup
  Mark("N_split3", \E r \in Idx(gt) : gt[r].x >= 3) \cup
  Mark("N_gmm1", \E r \in Idx(gt) : gt[r].x = 1) \cup
  Mark("N_bestgmm", \E j \in Idx(ev.taps.gmm) : LET sl == ev.taps.gmm[j].sel IN sl.mode = "delta" /\ sl.exact /\ Len(sl.ab10) >= 2 /\ BestDeltaClear(sl.ab10, sl.gain100)) \cup
  Mark("N_remerged", \E j \in Idx(ev.taps.gmm) : ev.taps.gmm[j].nraw > ev.taps.gmm[j].nfin) \cup
  Mark("N_noremerge", \E r \in Idx(gt) : NoRemerge(ev, post, prm)[r])

MsgFails(ev, post, tr) ==
  LET m == ev.msg  tb == post.tbl[ev.arg]  prm == tr.prm
      high == prm.hasmsa /\ NAbove(tr.raw, prm) > prm.h0 IN
  Chk("C01_Grammar", ~tr.desc.grammar \/ C01_Grammar(m)) \cup
  Chk("C01_Order", C01_Order(m)) \cup
  Chk("C01_SecondSCT", C01_SecondSCT(m)) \cup
  Chk("C01_ThirdBKN", C01_ThirdBKN(m)) \cup
  Chk("C01_Stands", C01_Stands(m, tb, prm)) \cup
  Chk("C01_NotZeroOkta", C01_NotZeroOkta(m, tb, post.data, post.ids[F(ev.arg)], prm)) \cup
  Chk("C02_First", C02_First(m, tb, prm)) \cup
  Chk("C02_Ceiling", C02_Ceiling(m, tb, prm)) \cup
  Chk("C02_Listed", C02_Listed(m, tb)) \cup
  Chk("C02_NCD", C02_NCD(m, tb, prm, high)) \cup
  Chk("C02_NSC", C02_NSC(m, tb, prm, high)) \cup
  Chk("I_Msg", m = Msg(tb, prm, post.flag))
MsgMarks(ev, post, tr) ==
  LET m == ev.msg  tb == post.tbl[ev.arg]  prm == tr.prm IN
  Mark("N_ncd", m = cNCD) \cup Mark("N_nsc", m = cNSC) \cup
  Mark("N_tok1", IsTokenMsg(m) /\ TokCount(m) = 1) \cup
  Mark("N_tok2", IsTokenMsg(m) /\ TokCount(m) = 2) \cup
  Mark("N_tok3", IsTokenMsg(m) /\ TokCount(m) = 3) \cup
  Mark("N_msaeq", prm.hasmsa /\ \E i \in Idx(tb) : tb[i].b.v = 100 * prm.msa) \cup
  Mark("N_abovemsa", prm.hasmsa /\ \E i \in Idx(tb) : tb[i].okta >= 1 /\ ~BelowMsa(tb[i].b, prm)) \cup
  Mark("N_suppressed", \E i \in Idx(tb) : Reportable(tb[i], prm) /\ ~tb[i].sig) \cup
  Mark("N_4rep", Cardinality(BelowRows(tb, prm)) >= 4) \cup
  Mark("N_okta0row", \E i \in Idx(tb) : tb[i].okta = 0) \cup
  Mark("N_ceilnotfirst", CeilRows(tb, prm) # {} /\ Lowest(tb, CeilRows(tb, prm)) \cap Lowest(tb, BelowRows(tb, prm)) = {})

(* a refusal is justified by a missing prerequisite or by the protection of the layering *)
MayRefuse(ev, pre) ==
  \/ ev.op = "find_groups" /\ (~pre.hast.slices \/ pre.hast.layers)
  \/ ev.op = "find_layers" /\ ~pre.hast.groups
  \/ ev.op = "metarize" /\ (~pre.has[F(ev.arg)] \/ (ev.arg = "groups" /\ pre.hast.layers))
  \/ ev.op = "metar_msg" /\ ~pre.hast[ev.arg]
(* a refused call must leave the accounting of the hits as it was: judged on the state it leaves behind *)
AccountingFails(post) ==
  UNION { IF post.hast[w] /\ post.has[F(w)]
          THEN Chk("C05_TableMatchesIds", C05_TableMatchesIds(post.tbl[w], post.ids[F(w)], post.nrep[w])) \cup
               Chk("C05_PartitionOne", C05_PartitionOne(post.data, post.ids[F(w)]))
          ELSE {} : w \in W } \cup
  (IF post.has.g /\ post.has.l /\ post.hast.layers THEN Chk("C05_LayerInOneGroup", C05_LayerInOneGroup(post.ids)) ELSE {})
ExcFails(ev, pre, post, tr) ==
  (IF tr.light \/ ev.op \in {"construct", "run_api"} THEN {} ELSE AccountingFails(post)) \cup
  Chk("C08_OnlyAmpycloudError", ev.exc = "AmpycloudError") \cup
  Chk("C14_RefusedIntact", ev.op \in {"construct", "run_api"} \/ tr.light \/ StateIntact(pre, post)) \cup
  Chk("C14_RefusalJustified", ev.op \in {"construct", "run_api"} \/ tr.light \/ MayRefuse(ev, pre)) \cup
  Chk("C08_Total", ~tr.desc.indomain \/ (ev.op \notin {"construct", "run_api"} /\ ~tr.light /\ MayRefuse(ev, pre)))

(* C14: every present table / message equals the one of the canonical run, the *)
(* isolated / ncomp column being the fresh or the annotated one according to  *)
(* the call-order machine                                                      *)
StripX(tb) == [r \in Idx(tb) |-> [tb[r] EXCEPT !.x = 0]]
XOk(tb, ctb, mode, freshval) ==
  Len(tb) = Len(ctb) /\ \A r \in Idx(tb) : tb[r].x = (IF mode = "fresh" THEN freshval ELSE ctb[r].x)
CanonFails(ev, post, tr, s2) ==
  IF ~tr.canon.has \/ ev.res # "ok" \/ ev.op = "construct" THEN {}
  ELSE LET c == tr.canon IN
    Chk("C14_CanonSlices", post.hast.slices => StripX(post.tbl.slices) = StripX(c.tbl.slices)) \cup
    Chk("C14_CanonGroups", post.hast.groups => StripX(post.tbl.groups) = StripX(c.tbl.groups)) \cup
    Chk("C14_CanonLayers", post.hast.layers => StripX(post.tbl.layers) = StripX(c.tbl.layers)) \cup
    Chk("C14_CanonIsolated", post.hast.slices => XOk(post.tbl.slices, c.tbl.slices, s2.sl, 1)) \cup
    Chk("C14_CanonNcomp", post.hast.groups => XOk(post.tbl.groups, c.tbl.groups, s2.gr, -1)) \cup
    Chk("C14_CanonIds", /\ (post.has.s => post.ids.s = c.ids.s) /\ (post.has.g => post.ids.g = c.ids.g)
                        /\ (post.has.l => post.ids.l = c.ids.l)) \cup
    Chk("C14_CanonMsg", ev.op = "metar_msg" => ev.msg = c.msg[ev.arg]) \cup
    Chk("I_StageTables", /\ post.hast.slices = (s2.sl # "absent") /\ post.hast.groups = (s2.gr # "absent")
                         /\ post.hast.layers = (s2.la # "absent")
                         /\ post.has.s = s2.hs /\ post.has.g = s2.hg /\ post.has.l = s2.hl)
StageFails(ev, tr, s1) ==
  IF ~tr.canon.has \/ ev.op = "construct" THEN {}
  ELSE Chk("I_StageRefuse", (ev.res = "exc") <=> StageRefuses(s1, ev.op, ev.arg, tr.canon.ng))

EventFails(i, k) ==
  LET tr == T(i)  ev == tr.events[k]  pre == Pre(i, k)  post == ev  prm == tr.prm
      tabs == UNION { IF post.hast[w] /\ post.has[F(w)] /\ ev.tchg[w]
                      THEN TableFails(post.tbl[w], post.ids[F(w)], post.data, prm, post.nrep[w], TRUE, tr.desc.grammar)
                      ELSE {} : w \in W }
  IN IF ev.res = "exc" THEN ExcFails(ev, pre, post, tr)
     ELSE IF tr.light THEN (IF ev.op = "metar_msg" THEN Chk("C01_Grammar", ~tr.desc.grammar \/ C01_Grammar(ev.msg)) \cup Chk("C08_ReturnsString", ev.hasmsg) ELSE {})
     ELSE tabs \cup
       (IF ev.op = "construct" THEN ConstructFails(tr, post)
        ELSE IF ev.op = "find_slices" THEN SliceImpl(ev, post)
        ELSE IF ev.op = "find_groups" THEN
               Chk("C06_Groups", C06_Groups(post.tbl.groups, prm)) \cup GroupImpl(ev, post, prm)
        ELSE IF ev.op \in {"find_layers", "run_api"} THEN
               (IF ev.op = "run_api" THEN ConstructFails(tr, post) ELSE {}) \cup
               Chk("C05_Partition", C05_Partition(post.data, post.ids)) \cup
               Chk("C05_LayerInOneGroup", C05_LayerInOneGroup(post.ids)) \cup
               Chk("C05_NcompCount", C05_NcompCount(post.tbl.groups, post.ids)) \cup
               Chk("C05_DataKept", C05_NoHitAltered(post.data, tr.raw, prm)) \cup
               Chk("C06_GroupsL", C06_Groups(post.tbl.groups, prm)) \cup
               Chk("C06_Layers", C06_Layers(post.tbl.groups, post.tbl.layers, post.ids, prm, NoRemerge(ev, post, prm))) \cup
               LayerImpl(ev, post, prm)
        ELSE IF ev.op = "metar_msg" THEN MsgFails(ev, post, tr)
        ELSE {}) \cup
       (IF ev.op \in {"metar_msg"} THEN Chk("C14_QueryPure", StateIntact(pre, post)) ELSE {})

EventMarks(i, k) ==
  LET tr == T(i)  ev == tr.events[k]  post == ev  prm == tr.prm
      tabs == UNION { IF post.hast[w] /\ post.has[F(w)] /\ ev.tchg[w]
                      THEN TableMarks(post.tbl[w], post.ids[F(w)], post.data, prm) ELSE {} : w \in W }
  IN IF ev.res = "exc" THEN {"N_exc"}
     ELSE IF tr.light THEN Mark("N_light", TRUE)
     ELSE tabs \cup
       (IF ev.op = "construct" THEN ConstructMarks(tr, post)
        ELSE IF ev.op = "find_groups" THEN GroupMarks(ev, post, prm)
        ELSE IF ev.op \in {"find_layers", "run_api"} THEN LayerMarks(ev, post, prm) \cup (IF ev.op = "run_api" THEN ConstructMarks(tr, post) ELSE {})
        ELSE IF ev.op = "metar_msg" THEN MsgMarks(ev, post, tr)
        ELSE {})

Init == LET all == Traces IN
        \E i \in DOMAIN all : tid = i /\ cur = all[i] /\ l = 0 /\ fails = {} /\ marks = {} /\ stg = StageInit
Next == /\ l < Len(T(tid).events)
        /\ l' = l + 1 /\ tid' = tid /\ cur' = cur
        /\ LET ev == cur.events[l + 1] IN
           /\ stg' = IF ev.op = "construct" \/ ~cur.canon.has THEN stg ELSE StageNext(stg, ev.op, ev.arg, cur.canon.ng)
           /\ fails' = EventFails(tid, l + 1) \cup StageFails(ev, cur, stg) \cup CanonFails(ev, ev, cur, stg')
        /\ marks' = EventMarks(tid, l + 1)
        /\ PrintT(<<"V", T(tid).tid, l + 1, fails', marks'>>)
Spec == Init /\ [][Next]_tvars
=============================================================================
