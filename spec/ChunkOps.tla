----------------------------- MODULE ChunkOps -----------------------------
(* Deterministic operators of the ampycloud glue (data.py): cropping,      *)
(* counting, okta binning, base heights, tables, merging of close groups,  *)
(* layer ids, message assembly.  Oracles (clustering, mixture fit, LOWESS) *)
(* are arguments.  Used by the state machine Chunk.tla (which quantifies   *)
(* over the oracles) and by the trace specifications (which plug in the    *)
(* logged oracle outputs).                                                 *)
(*                                                                         *)
(* Shapes                                                                  *)
(*   prm  : [hasmsa, msa, buf, h0, h8, p, lb, excl(seq of names), sepv,    *)
(*           sepl, minokta, minpts]                                        *)
(*   row  : [c (name), t (rank of dt), h (feet, NaNH = NaN), k (type)]       *)
(*   ids  : sequence of integers aligned with the data rows (-1 = none)    *)
(*   trow : [cid, n, perc4, okta, b |-> [v (centi-feet), d], hmin, hmax,   *)
(*           thick, code (char codes), sig, x (isolated|ncomp|0)]          *)
EXTENDS Num, WMO, ICAO

Idx(sq) == 1..Len(sq)
ExclSet(prm) == SeqToSet(prm.excl)

(* ---- cropping above MSA + buffer (AbstractChunk._cleanup_pdf) -------- *)
Lim(prm) == prm.msa + prm.buf
IsAbove(r, prm) == prm.hasmsa /\ r.h # NaNH /\ r.h > Lim(prm)
CropRow(r, prm) == IF IsAbove(r, prm) THEN [c |-> r.c, t |-> r.t, h |-> NaNH, k |-> 0] ELSE r
Crop(rows, prm) ==
  LET keep == SelectSeq(rows, LAMBDA r : ~(IsAbove(r, prm) /\ r.k > 1))
  IN [i \in 1..Len(keep) |-> CropRow(keep[i], prm)]
NAbove(rows, prm) == Cardinality({i \in Idx(rows) : IsAbove(rows[i], prm)})
HighFlag(rows, prm) == NAbove(rows, prm) > prm.h0

(* ---- members, measurements ------------------------------------------- *)
Valid(d) == {i \in Idx(d) : d[i].h # NaNH}
MemIdx(idv, id) == {i \in Idx(idv) : idv[i] = id}
IdsPresent(idv) == SeqToSet(idv) \ {-1}
MeasOf(d, I) == {<<d[i].c, d[i].t>> : i \in I}
TotalMeas(d) == Cardinality(MeasOf(d, Idx(d)))              \* max_hits_per_layer
HeightsOf(d, I) == LET sq == SetToSeq(I) IN [j \in 1..Len(sq) |-> d[sq[j]].h]
HeightSet(d, I) == {d[i].h : i \in I}

(* ---- base height: percentile over the look-back window --------------- *)
(* calc_base_height(vals, lb, p): vals[-int(len*lb/100):], vals in time     *)
(* order.  LookbackZeroMeansAll: a window of 0 elements is the whole set.  *)
(* The time sort is unstable: which of several simultaneous hits sit at    *)
(* the edge of the window is free (BaseSet is a set).                      *)
WindowLen(n, LB) == (n * LB) \div 100
BaseSet(d, I, P, LB) ==
  LET n == Cardinality(I)   k == WindowLen(n, LB)
  IN IF k = 0 \/ k = n THEN {PercOf(HeightsOf(d, I), P)}
     ELSE LET ts == SortInts([j \in 1..n |-> d[SetToSeq(I)[j]].t])
              tb == ts[n - k + 1]
              A  == {i \in I : d[i].t > tb}
              E  == {i \in I : d[i].t = tb}
          IN {PercOf(HeightsOf(d, A \cup S), P) : S \in kSubset(k - Cardinality(A), E)}
TieFree(d, I, LB) ==        \* the window is determined (no tie straddles its edge)
  LET n == Cardinality(I)   k == WindowLen(n, LB)
  IN k = 0 \/ k = n \/
     LET ts == SortInts([j \in 1..n |-> d[SetToSeq(I)[j]].t]) IN ts[n - k] < ts[n - k + 1]

(* exclusion of ceilometers with fall-back (implementation: strictly more  *)
(* than MAX_HITS_OKTA0 hits must remain)                                   *)
Filtered(d, I, prm) == {i \in I : d[i].c \notin ExclSet(prm)}
Selected(d, I, prm) ==
  IF prm.excl # <<>> /\ Cardinality(Filtered(d, I, prm)) > prm.h0 THEN Filtered(d, I, prm) ELSE I
BaseSetSel(d, I, prm) == BaseSet(d, Selected(d, I, prm), prm.p, prm.lb)
BaseSetAll(d, I, prm) == BaseSet(d, I, prm.p, prm.lb)
(* deterministic choice used by the model (the trace specs use the sets) *)
Base100(d, I, prm, useExcl) ==
  SetMin(IF useExcl THEN BaseSetSel(d, I, prm) ELSE BaseSetAll(d, I, prm))

(* ---- minimum separation ---------------------------------------------- *)
(* np.searchsorted(MIN_SEP_LIMS, height) (side left): bin k is (lim[k-1], lim[k]] *)
MinSepIdx(f, prm)  == Cardinality({j \in Idx(prm.sepl) : FGt(f, 100 * prm.sepl[j])}) + 1
MinSep(f, prm)     == prm.sepv[MinSepIdx(f, prm)]
(* property level: at a height exactly on a limit either neighbouring bin is "the bin" *)
MinSepSet(f, prm)  == {prm.sepv[MinSepIdx(f, prm)]} \cup
                      {prm.sepv[j + 1] : j \in {x \in Idx(prm.sepl) : f.v = 100 * prm.sepl[x]}}
Exact(v) == [v |-> v, d |-> 0]

(* ---- tables (CeiloChunk.metarize) ------------------------------------ *)
CodeOf(okta, f) == OktaNameC(okta) \o Digits3(HCode(f.v))
RowFor(d, idv, id, prm, xval) ==
  LET I  == MemIdx(idv, id)
      n  == Cardinality(MeasOf(d, I))
      m  == TotalMeas(d)
      o  == Okta(n, m, prm.h0, prm.h8)
      hs == HeightSet(d, I)
      b  == Exact(Base100(d, I, prm, TRUE))
  IN [cid |-> id, n |-> n, perc4 |-> (1000000 * n + m \div 2) \div m, okta |-> o, b |-> b,
      hmin |-> SetMin(hs), hmax |-> SetMax(hs), thick |-> SetMax(hs) - SetMin(hs),
      code |-> CodeOf(o, b), sig |-> FALSE, x |-> xval]
RowLess(a, b) == a.b.v < b.b.v \/ (a.b.v = b.b.v /\ a.cid < b.cid)
WithSig(rows) == LET sg == SigFlags([i \in Idx(rows) |-> rows[i].okta])
                 IN [i \in Idx(rows) |-> [rows[i] EXCEPT !.sig = sg[i]]]
Table(d, idv, prm, xval) ==
  WithSig(SortSeq(SetToSeq({RowFor(d, idv, id, prm, xval) : id \in IdsPresent(idv)}), RowLess))

(* ---- slicing ----------------------------------------------------------- *)
(* labels: sequence aligned with the valid rows (in row order)             *)
ValidSeq(d) == SortInts(SetToSeq(Valid(d)))
SliceIds(d, labels) ==
  LET vs == ValidSeq(d)
      pos(i) == CHOOSE j \in Idx(vs) : vs[j] = i
  IN IF Len(vs) = 0 THEN [i \in Idx(d) |-> -1]
     ELSE IF Len(vs) = 1 THEN [i \in Idx(d) |-> IF d[i].h = NaNH THEN -1 ELSE 1]  \* SingleValidHitGetsSliceId1
     ELSE [i \in Idx(d) |-> IF d[i].h = NaNH THEN -1 ELSE labels[pos(i)]]

(* ---- bundles of overlapping slices and the pre-merge grouping (CeiloChunk.find_groups) ---- *)
(* st: the slices table (rows sorted by base); pad: GROUPING_PRMS.height_pad_perc (integer %). *)
(* All comparisons in units of 1/100 ft.                                                      *)
LoLim(st, i, pad) == 100 * st[i].hmin - pad * st[i].thick
HiLim(st, i, pad) == 100 * st[i].hmax + pad * st[i].thick
Overlap(st, i, j, pad) == IF j < i THEN LoLim(st, i, pad) < HiLim(st, j, pad) ELSE HiLim(st, i, pad) > LoLim(st, j, pad)
OverlapTie(st, i, j, pad) == IF j < i THEN LoLim(st, i, pad) = HiLim(st, j, pad) ELSE HiLim(st, i, pad) = LoLim(st, j, pad)
CloseTo(st, i, pad) == {j \in Idx(st) \ {i} : Overlap(st, i, j, pad)}
IsolatedSlice(st, i, pad) == CloseTo(st, i, pad) = {}
AnyOverlapTie(st, pad) == \E i, j \in Idx(st) : i # j /\ OverlapTie(st, i, j, pad)
(* FirstMatchingBundleOnly: slices are taken in table order; a non-isolated slice joins the FIRST existing *)
(* bundle that contains one of the slices it overlaps with, else it opens a new bundle; bundles are never   *)
(* fused afterwards                                                                                          *)
RECURSIVE BundlesR(_, _, _, _)
BundlesR(st, pad, i, bs) ==
  IF i > Len(st) THEN bs
  ELSE IF IsolatedSlice(st, i, pad) THEN BundlesR(st, pad, i + 1, bs)
  ELSE LET hit == {k \in Idx(bs) : SeqToSet(bs[k]) \cap CloseTo(st, i, pad) # {}}
       IN IF hit = {} THEN BundlesR(st, pad, i + 1, Append(bs, <<i>>))
          ELSE LET k == SetMin(hit) IN BundlesR(st, pad, i + 1, [bs EXCEPT ![k] = Append(@, i)])
Bundles(st, pad) == BundlesR(st, pad, 1, <<>>)
(* rows of the data belonging to a bundle with a valid height, in row order *)
BundleRows(d, sid, st, b) == SortInts(SetToSeq({r \in Valid(d) : \E q \in Idx(b) : sid[r] = st[b[q]].cid}))
(* MajoritySliceIdSmallestOnTie: a cluster is named after the slice holding most of its hits *)
ModeSmallest(vals) == LET S == SeqToSet(vals)
                          cnt(x) == Cardinality({q \in Idx(vals) : vals[q] = x})
                          best == SetMax({cnt(x) : x \in S})
                      IN SetMin({x \in S : cnt(x) = best})
(* the pre-merge grouping: clus = one label sequence per bundle that was actually clustered (two or more hits) *)
RECURSIVE PreMergeR(_, _, _, _, _, _, _)
PreMergeR(d, sid, st, bs, clus, k, acc) ==        \* acc: [g, used] group ids so far (-2 = not set), number of label sequences consumed
  IF k > Len(bs) THEN acc
  ELSE LET rows == BundleRows(d, sid, st, bs[k]) IN
       IF Len(rows) < 2 THEN PreMergeR(d, sid, st, bs, clus, k + 1, acc)
       ELSE IF acc.used >= Len(clus) \/ Len(clus[acc.used + 1]) # Len(rows) THEN [g |-> acc.g, used |-> -1]        \* taps do not line up
       ELSE LET lab == clus[acc.used + 1]
                name(c) == ModeSmallest([q \in 1..Cardinality({x \in Idx(rows) : lab[x] = c}) |->
                                           sid[rows[SortInts(SetToSeq({x \in Idx(rows) : lab[x] = c}))[q]]]])
                g2 == [r \in Idx(d) |-> IF \E x \in Idx(rows) : rows[x] = r
                                         THEN name(lab[CHOOSE x \in Idx(rows) : rows[x] = r]) ELSE acc.g[r]]
            IN PreMergeR(d, sid, st, bs, clus, k + 1, [g |-> g2, used |-> acc.used + 1])
PreMergeGrouping(d, sid, st, pad, clus) ==
  LET res == PreMergeR(d, sid, st, Bundles(st, pad), clus, 1, [g |-> [r \in Idx(d) |-> -2], used |-> 0])
  IN [ok |-> res.used = Len(clus),
      g  |-> [r \in Idx(d) |-> IF res.g[r] = -2 THEN sid[r] ELSE res.g[r]]]

(* ---- merging of close groups (CeiloChunk._merge_close_groups) -------- *)
(* tb: sequence of [cid, b100]; sorted once, never re-sorted; the merged   *)
(* group keeps the id of the lower table row; one merge per iteration.     *)
(* useExcl: the repaired code recomputes merged bases with the exclusion   *)
(* rule, the pinned tree did not (PinnedMerge).                            *)
PrelimTable(d, g, prm) ==
  SortSeq(SetToSeq({[cid |-> id, b |-> Base100(d, MemIdx(g, id), prm, TRUE)] : id \in IdsPresent(g)}),
          LAMBDA a, b : a.b < b.b \/ (a.b = b.b /\ a.cid < b.cid))
TooClose(tb, i, prm) == tb[i].b - tb[i - 1].b < 100 * MinSep(Exact(tb[i].b), prm)
OnTie(tb, i, prm)    == tb[i].b - tb[i - 1].b = 100 * MinSep(Exact(tb[i].b), prm)
MergeStep(d, g, tb, prm, useExcl) ==       \* one iteration; precondition: some pair too close
  LET i   == SetMin({j \in 2..Len(tb) : TooClose(tb, j, prm)})
      g2  == [r \in Idx(g) |-> IF g[r] = tb[i].cid THEN tb[i - 1].cid ELSE g[r]]
      tb1 == RemoveAt(tb, i)
      tb2 == [tb1 EXCEPT ![i - 1].b = Base100(d, MemIdx(g2, tb[i - 1].cid), prm, useExcl)]
  IN [g |-> g2, tb |-> tb2]
MergeDone(tb, prm) == \A j \in 2..Len(tb) : ~TooClose(tb, j, prm)
RECURSIVE MergeLoop(_, _, _, _, _)
MergeLoop(d, g, tb, prm, useExcl) ==
  IF MergeDone(tb, prm) THEN g
  ELSE LET s == MergeStep(d, g, tb, prm, useExcl) IN MergeLoop(d, s.g, s.tb, prm, useExcl)
MergeClose(d, g0, prm, useExcl) == MergeLoop(d, g0, PrelimTable(d, g0, prm), prm, useExcl)
RECURSIVE MergeTies(_, _, _, _, _)
MergeTies(d, g, tb, prm, useExcl) ==        \* is the outcome of the loop undetermined at this level of abstraction ?
  \/ \E j \in 2..Len(tb) : OnTie(tb, j, prm)                          \* a comparison sits exactly on the separation
  \/ /\ ~MergeDone(tb, prm)
     /\ LET s == MergeStep(d, g, tb, prm, useExcl)
             i == SetMin({j \in 2..Len(tb) : TooClose(tb, j, prm)})
             M == MemIdx(s.g, tb[i - 1].cid)                           \* the merged group
         IN \/ ~TieFree(d, (IF useExcl THEN Selected(d, M, prm) ELSE M), prm.lb)   \* simultaneous hits at the edge of its look-back window
            \/ MergeTies(d, s.g, s.tb, prm, useExcl)

(* ---- layering ---------------------------------------------------------- *)
(* Group table row `ind` (1-based here, 0-based in the code) is examined   *)
(* unless: okta < min_okta_to_split | fewer than minpts valid hits | one   *)
(* distinct height.                                                        *)
SkipLayering(d, g, grow, prm) ==
  LET I == MemIdx(g, grow.cid)
  IN grow.okta < prm.minokta \/ Cardinality(I) < prm.minpts \/ Cardinality(HeightSet(d, I)) = 1
NcompMax(d, g, grow) == Min2(3, Cardinality(HeightSet(d, MemIdx(g, grow.cid))))
(* layer id of sub-component k of the group at table row ind (1-based);    *)
(* off = 100 on the pinned tree, above every group id on the repaired one  *)
LayerOffset(g, fixedIds) == IF fixedIds THEN Max2(100, SetMax(IdsPresent(g) \cup {0}) + 1) ELSE 100
LayerId(off, ind, k) == off + 10 * (ind - 1) + k
(* re-merge pass of ncomp_from_gmm: bases: sequence (component 0..k0-1 ->   *)
(* base100), sep in feet; result: map component -> final component          *)
ArgSort(bs) == SortSeq([i \in Idx(bs) |-> i], LAMBDA a, b : bs[a] < bs[b] \/ (bs[a] = bs[b] /\ a < b))
RECURSIVE Remerge(_, _, _, _, _)
Remerge(bs, order, cmap, sep, j) ==        \* j: position in the sorted order (1..k0-1)
  IF j >= Len(order) THEN cmap
  ELSE IF bs[order[j + 1]] - bs[order[j]] >= 100 * sep THEN Remerge(bs, order, cmap, sep, j + 1)
  ELSE LET tgt == cmap[order[j]]
           cm2 == [c \in DOMAIN cmap |-> IF cmap[c] = cmap[order[j + 1]] THEN tgt ELSE cmap[c]]
       IN Remerge(bs, order, cm2, sep, j + 1)
RemergeMap(bs, sep) == Remerge(bs, ArgSort(bs), [i \in Idx(bs) |-> i], sep, 1)

(* ---- model selection (layer.best_gmm, mode 'delta') --------------------- *)
(* scores ab (tenths), gain (hundredths): starting from the simplest model, model m+1 becomes the *)
(* current best if its score is smaller than gain * score of the current best                    *)
RECURSIVE BestDeltaR(_, _, _, _)
BestDeltaR(ab, gain100, m, best) ==
  IF m >= Len(ab) THEN best
  ELSE BestDeltaR(ab, gain100, m + 1, IF 100 * ab[m + 1] < gain100 * ab[best] THEN m + 1 ELSE best)
BestDelta(ab, gain100) == BestDeltaR(ab, gain100, 1, 1) - 1          \* 0-based index, as the code returns it
(* a comparison within the rounding of the logged scores is inconclusive *)
BestDeltaClear(ab, gain100) == \A m \in 2..Len(ab) : \A b \in 1..(m - 1) : Abs(100 * ab[m] - gain100 * ab[b]) > 200 + gain100

(* ---- message (CeiloChunk.metar_msg) ----------------------------------- *)
BelowMsa(f, prm) == ~prm.hasmsa \/ FLt(f, 100 * prm.msa)
RECURSIVE JoinCodes(_, _)
JoinCodes(rows, i) == IF i = 0 THEN <<>>
                      ELSE IF i = 1 THEN rows[1].code ELSE JoinCodes(rows, i - 1) \o <<32>> \o rows[i].code
Msg(tb, prm, flag) ==
  LET rep == SelectSeq(tb, LAMBDA r : r.sig /\ BelowMsa(r.b, prm))
      hi  == \E i \in Idx(tb) : tb[i].sig /\ ~BelowMsa(tb[i].b, prm)
  IN IF Len(tb) = 0 THEN (IF flag THEN cNSC ELSE cNCD)
     ELSE IF Len(rep) = 0 THEN (IF hi \/ flag THEN cNSC ELSE cNCD)
     ELSE JoinCodes(rep, Len(rep))

=============================================================================
