------------------------------ MODULE ICAOAuto ------------------------------
(* The 1-3-5 rule as a finite automaton fed with arbitrary okta values: the *)
(* fold of significant_cloud() (state lvl, cnt) and the declarative rule    *)
(* (flag iff fewer than three flags so far and okta >= 1 + 2 * flags) agree *)
(* on every step of every input sequence of ANY length (complete: the       *)
(* product automaton is finite).                                            *)
EXTENDS ICAO
VARIABLES fold, cnt, okta, flagF, flagA
vars == <<fold, cnt, okta, flagF, flagA>>
Init == fold = [lvl |-> 0, cnt |-> 0] /\ cnt = 0 /\ okta = 0 /\ flagF = FALSE /\ flagA = FALSE
Feed(o) == LET f2 == SigStep([lvl |-> fold.lvl, cnt |-> fold.cnt, out |-> <<>>], o) IN
           /\ okta' = o
           /\ fold' = [lvl |-> f2.lvl, cnt |-> f2.cnt]
           /\ flagF' = f2.out[1]
           /\ flagA' = AutoFlag(cnt, o)
           /\ cnt' = AutoStep(cnt, o)
Next == \E o \in 0..8 : Feed(o)
Spec == Init /\ [][Next]_vars
Inv_Agree == flagF = flagA
Inv_State == fold.cnt = cnt /\ fold.lvl = 2 * cnt /\ cnt \in 0..3
Inv_ZeroNeverFlagged == okta = 0 => ~flagF
Prop_AtMostThree == [][cnt = 3 => ~flagF']_vars
=============================================================================
