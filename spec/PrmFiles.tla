------------------------------ MODULE PrmFiles ------------------------------
(* The parameter-file entry points as decision tables: set_prms(path),       *)
(* copy_prm_file(save_loc, which), reset_prms(which).  Beyond the listed     *)
(* properties (implementation-level clauses named I_PrmFiles): what is refused, with      *)
(* which exception, what is warned about, what the global dictionary and     *)
(* the file system look like afterwards.                                     *)
EXTENDS Integers, Sequences, FiniteSets, Json, IOUtils, TLC, TLCExt, SequencesExt
(* ---- set_prms ---- *)
(* case: [fn |-> "set_prms", arg, target, suffix, content] *)
SetPrmsCases == {[fn |-> "set_prms", arg |-> a, target |-> t, suffix |-> s, content |-> c, which |-> "", pre |-> FALSE] :
                   a \in {"str", "path", "int", "none", "bytes"}, t \in {"missing", "dir", "file"},
                   s \in {".yml", ".yaml", ".txt", ""}, c \in {"valid", "empty", "unknownkey", "nestedunknown"}}
SetPrmsRefuses(c) == c.arg \notin {"str", "path"} \/ c.target # "file"
SetPrmsWarnsSuffix(c) == ~SetPrmsRefuses(c) /\ c.suffix # ".yml"
SetPrmsWarnsUnknown(c) == ~SetPrmsRefuses(c) /\ c.content \in {"unknownkey", "nestedunknown"}
SetPrmsChanges(c) == ~SetPrmsRefuses(c) /\ c.content # "empty"         \* the known key of the file (MSA) is set
(* ---- copy_prm_file ---- *)
CopyCases == {[fn |-> "copy_prm_file", arg |-> "", target |-> t, suffix |-> "", content |-> "", which |-> w, pre |-> p] :
                t \in {"missing", "dir", "file"}, w \in {"default", "defaults", "bogus"}, p \in BOOLEAN}
CopyRefuses(c) == c.target # "dir" \/ c.which # "default" \/ c.pre          \* pre: the file is already there
(* ---- reset_prms ---- *)
ResetCases == {[fn |-> "reset_prms", arg |-> a, target |-> "", suffix |-> "", content |-> "", which |-> "", pre |-> FALSE] :
                 a \in {"none", "name", "list", "bogus", "listbogus", "emptylist"}}
ResetRefuses(c) == c.arg \in {"bogus", "listbogus"}
Cases == SetPrmsCases \cup CopyCases \cup ResetCases
Refuses(c) == IF c.fn = "set_prms" THEN SetPrmsRefuses(c) ELSE IF c.fn = "copy_prm_file" THEN CopyRefuses(c) ELSE ResetRefuses(c)

VARIABLES job, done
Report(name, S) == PrintT(<<"R", name, S>>)
(* a record: [c, res ("ok"|"exc"), exc, warnsuffix, warnunknown, msa_set, keysok, copied_identical, others_default] *)
Judge ==
  LET C == job.cases  K == DOMAIN C IN
  /\ Report("I_PrmFiles_RefusesExactly", {j \in K : (C[j].res = "exc") # Refuses(C[j].c)})
  /\ Report("I_PrmFiles_OnlyAmpycloudError", {j \in K : C[j].res = "exc" /\ C[j].exc # "AmpycloudError"})
  /\ Report("I_PrmFiles_SuffixWarning", {j \in K : C[j].c.fn = "set_prms" /\ (C[j].warnsuffix # SetPrmsWarnsSuffix(C[j].c))})
  /\ Report("I_PrmFiles_UnknownWarning", {j \in K : C[j].c.fn = "set_prms" /\ (C[j].warnunknown # SetPrmsWarnsUnknown(C[j].c))})
  /\ Report("I_PrmFiles_SetsKnownKeys", {j \in K : C[j].c.fn = "set_prms" /\ (C[j].msa_set # SetPrmsChanges(C[j].c))})
  /\ Report("I_PrmFiles_NoKeyAdded", {j \in K : ~C[j].keysok})
  /\ Report("I_PrmFiles_CopyIdentical", {j \in K : C[j].c.fn = "copy_prm_file" /\ C[j].res = "ok" /\ ~C[j].copied_identical})
  /\ Report("I_PrmFiles_RefusedLeavesGlobal", {j \in K : C[j].res = "exc" /\ C[j].c.arg # "listbogus" /\ ~C[j].others_default})
  /\ Report("I_PrmFiles_ResetRestores", {j \in K : C[j].c.fn = "reset_prms" /\ C[j].res = "ok" /\ ~C[j].others_default})
  /\ Report("N_cases", K)
Export == JsonSerialize(IOEnv.OUT_DIR \o "/cases.json", SetToSeq(Cases))
Init == job = (IF IOEnv.MODE = "export" THEN [cases |-> <<>>] ELSE JsonDeserialize(IOEnv.JOB_FILE)) /\ done = FALSE
Next == ~done /\ done' = TRUE /\ job' = job /\ (IF IOEnv.MODE = "export" THEN Export ELSE Judge)
Spec == Init /\ [][Next]_<<job, done>>
=============================================================================
