---------------------------- MODULE TraceSession ----------------------------
(* Recorded sessions (one per process) replayed against SessionOps.          *)
EXTENDS SessionOps, Json, IOUtils, TLC, TLCExt
Sessions == JsonDeserialize(IOEnv.TRACE_FILE)
VARIABLES tid, l, fails, marks, cur, seen
tvars == <<tid, l, fails, marks, cur, seen>>
View == <<tid, l>>
Chk(name, cond) == IF cond THEN {} ELSE {name}
Mark(name, cond) == IF cond THEN {name} ELSE {}
Init == LET all == Sessions IN \E i \in DOMAIN all : tid = i /\ cur = all[i] /\ l = 0 /\ fails = {} /\ marks = {} /\ seen = <<>>
Next == /\ l < Len(cur.events)
        /\ l' = l + 1 /\ tid' = tid /\ cur' = cur
        /\ LET e == cur.events[l + 1] IN
           /\ fails' = Chk("C09_RngUntouched", C09_RngUntouched(e)) \cup Chk("C09_NoException", C09_NoException(e))
                       \cup Chk("C09_SameAsBefore", C09_SameAsBefore(seen, e))
                       \cup Chk("C09_SameAcrossProcesses", C09_SameAsReference(cur.ref, e))
           /\ marks' = Mark("N_" \o e.act, TRUE) \cup Mark("N_repeat", e.act = "run" /\ <<e.d, e.p>> \in DOMAIN seen)
                       \cup Mark("N_rngmoved", e.ra # e.rb)
           /\ seen' = Remember(seen, e)
        /\ PrintT(<<"V", cur.tid, l + 1, fails', marks'>>)
Spec == Init /\ [][Next]_tvars
=============================================================================
