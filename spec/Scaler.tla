------------------------------- MODULE Scaler -------------------------------
(* The scalings of scaler.py over exact rationals <<num, den>> (den > 0).    *)
(* NaN is the pair <<0, 0>>.  (A) the transcriptions are checked for every   *)
(* enumerated case: strictly increasing, undo o do = id, min-max into [0,1]  *)
(* honouring min_range, step scaling continuous at every step, NaN blind.    *)
(* (B) the same cases run through the real apply_scaling / convert_kwargs;   *)
(* the recorded values are judged against the property clauses and compared  *)
(* with the transcription (I_ clauses).                                             *)
EXTENDS Integers, Sequences, FiniteSets, TLC, Json, IOUtils, TLCExt, SequencesExt, FiniteSetsExt

(* ---- rationals ---- *)
R(n) == <<n, 1>>
NaN == <<0, 0>>
IsNaN(a) == a[2] = 0
(* comparisons through the integer parts first: recorded values may have large numerators (TLC integers are 32 bit, *)
(* denominators of recorded values are at most 40000)                                                              *)
(* total: a comparison involving NaN is false, as for floats (recorded values may be NaN where none is expected)    *)
Fl(a) == IF a[2] = 0 THEN 0 ELSE a[1] \div a[2]
Fr(a) == a[1] - Fl(a) * a[2]
Num2(a, b) == a[2] # 0 /\ b[2] # 0
RLt(a, b) == Num2(a, b) /\ (IF Fl(a) # Fl(b) THEN Fl(a) < Fl(b) ELSE Fr(a) * b[2] < Fr(b) * a[2])
RLe(a, b) == Num2(a, b) /\ (IF Fl(a) # Fl(b) THEN Fl(a) < Fl(b) ELSE Fr(a) * b[2] <= Fr(b) * a[2])
REq(a, b) == Num2(a, b) /\ Fl(a) = Fl(b) /\ Fr(a) * b[2] = Fr(b) * a[2]
RECURSIVE Gcd(_, _)
Gcd(a, b) == IF b = 0 THEN a ELSE Gcd(b, a % b)
Abs(x) == IF x < 0 THEN -x ELSE x
Norm(a) == IF IsNaN(a) THEN a ELSE LET g == Gcd(Abs(a[1]), a[2]) IN IF g = 0 THEN a ELSE <<a[1] \div g, a[2] \div g>>
(* every operation normalises its result: TLC integers are 32 bit *)
RAdd(a, b) == Norm(<<a[1] * b[2] + b[1] * a[2], a[2] * b[2]>>)
RSub(a, b) == Norm(<<a[1] * b[2] - b[1] * a[2], a[2] * b[2]>>)
RMul(a, b) == Norm(<<a[1] * b[1], a[2] * b[2]>>)
RDiv(a, b) == Norm(IF b[1] > 0 THEN <<a[1] * b[2], a[2] * b[1]>> ELSE <<-(a[1] * b[2]), -(a[2] * b[1])>>)
Idx(sq) == 1..Len(sq)
Finite(xs) == {i \in Idx(xs) : ~IsNaN(xs[i])}
RMaxOf(xs) == LET F == Finite(xs) IN xs[CHOOSE i \in F : \A j \in F : RLe(xs[j], xs[i])]
RMinOf(xs) == LET F == Finite(xs) IN xs[CHOOSE i \in F : \A j \in F : RLe(xs[i], xs[j])]
MapF(xs, Op(_)) == [i \in Idx(xs) |-> IF IsNaN(xs[i]) THEN NaN ELSE Norm(Op(xs[i]))]

(* ---- shift-and-scale ---- *)
SSDo(xs, shift, scale) == MapF(xs, LAMBDA x : RDiv(RSub(x, shift), R(scale)))
SSUndo(ys, shift, scale) == MapF(ys, LAMBDA y : RAdd(RMul(y, R(scale)), shift))
SSShift(xs, c) == IF c.hasshift THEN R(c.shift) ELSE RMaxOf(xs)

(* ---- min-max with a minimum range ---- *)
MinMaxEdges(xs, minrange) ==
  LET lo == RMinOf(xs)  hi == RMaxOf(xs)  rng == RSub(hi, lo) IN
  IF RLe(R(minrange), rng) THEN <<lo, hi>>
  ELSE LET mid == RDiv(RAdd(hi, lo), R(2))  half == RDiv(R(minrange), R(2)) IN <<RSub(mid, half), RAdd(mid, half)>>
MMDo(xs, e) == MapF(xs, LAMBDA x : RDiv(RSub(x, e[1]), RSub(e[2], e[1])))
MMUndo(ys, e) == MapF(ys, LAMBDA y : RAdd(RMul(y, RSub(e[2], e[1])), e[1]))

(* ---- step scaling ---- *)
RECURSIVE Corr(_, _, _)
(* continuity offset of bin sid (1-based): steps[1]/scales[1] + sum_{j=2..sid-1} (steps[j]-steps[j-1])/scales[j] *)
Corr(steps, scales, sid) ==
  IF sid <= 1 THEN R(0)
  ELSE IF sid = 2 THEN <<steps[1], scales[1]>>
  ELSE RAdd(Corr(steps, scales, sid - 1), <<steps[sid - 1] - steps[sid - 2], scales[sid - 1]>>)
Offset(steps, sid) == IF sid = 1 THEN 0 ELSE steps[sid - 1]
BinOf(steps, x) == Cardinality({j \in Idx(steps) : RLe(R(steps[j]), x)}) + 1          \* edges[sid] <= x < edges[sid+1]
StepDo1(steps, scales, x) == LET sid == BinOf(steps, x) IN
                             RAdd(RDiv(RSub(x, R(Offset(steps, sid))), R(scales[sid])), Corr(steps, scales, sid))
StepDo(xs, steps, scales) == MapF(xs, LAMBDA x : StepDo1(steps, scales, x))
EdgeOut(steps, scales, j) == Corr(steps, scales, j + 1)                                 \* image of step j
BinOut(steps, scales, y) == Cardinality({j \in Idx(steps) : RLe(EdgeOut(steps, scales, j), y)}) + 1
StepUndo1(steps, scales, y) == LET sid == BinOut(steps, scales, y) IN
                               RAdd(RMul(RSub(y, Corr(steps, scales, sid)), R(scales[sid])), R(Offset(steps, sid)))
StepUndo(ys, steps, scales) == MapF(ys, LAMBDA y : StepUndo1(steps, scales, y))
(* value at step j computed with the formula of the bin on its left: continuity *)
StepLeftLimit(steps, scales, j) == RAdd(RDiv(RSub(R(steps[j]), R(Offset(steps, j))), R(scales[j])), Corr(steps, scales, j))

(* ---- a case: [mode, xs (sequence of <<n,d>>), scale, hasshift, shift, minrange, steps, scales] ---- *)
Do(c) == IF c.mode = "ss" THEN SSDo(c.xs, SSShift(c.xs, c), c.scale)
         ELSE IF c.mode = "mm" THEN MMDo(c.xs, MinMaxEdges(c.xs, c.minrange))
         ELSE StepDo(c.xs, c.steps, c.scales)
Undo(c, ys) == IF c.mode = "ss" THEN SSUndo(ys, SSShift(c.xs, c), c.scale)
               ELSE IF c.mode = "mm" THEN MMUndo(ys, MinMaxEdges(c.xs, c.minrange))
               ELSE StepUndo(ys, c.steps, c.scales)
InDomain(c) == Finite(c.xs) # {} /\ (c.mode = "mm" => ~REq(MinMaxEdges(c.xs, c.minrange)[1], MinMaxEdges(c.xs, c.minrange)[2]))

(* ---- property clauses on (xs, ys) whatever their origin ---- *)
P_NoReversal(xs, ys) == \A i, j \in Finite(xs) : RLt(xs[i], xs[j]) => ~RLt(ys[j], ys[i])
P_Strict(xs, ys)     == \A i, j \in Finite(xs) : RLt(xs[i], xs[j]) => RLt(ys[i], ys[j])
P_NaNKept(xs, ys)    == Len(ys) = Len(xs) /\ \A i \in Idx(xs) : IsNaN(xs[i]) <=> IsNaN(ys[i])
P_Unit(ys)           == \A i \in Finite(ys) : RLe(R(0), ys[i]) /\ RLe(ys[i], R(1))
P_MinRange(c, ys)    == LET rng == RSub(RMaxOf(c.xs), RMinOf(c.xs))  span == RSub(RMaxOf(ys), RMinOf(ys)) IN
                        IF Finite(ys) = {} THEN FALSE
                        ELSE IF RLe(R(c.minrange), rng) THEN REq(span, IF REq(rng, R(0)) THEN R(0) ELSE R(1))
                        ELSE REq(RMul(span, R(c.minrange)), rng)
P_Continuous(c)      == \A j \in Idx(c.steps) : REq(StepLeftLimit(c.steps, c.scales, j), StepDo1(c.steps, c.scales, R(c.steps[j])))
P_UnitSlope(c, ys)   == \* recorded values: across consecutive integers the increment is 1/scale of the left bin (continuity at the steps)
  \A i, j \in Finite(c.xs) : (c.xs[i][2] = 1 /\ c.xs[j][2] = 1 /\ c.xs[j][1] = c.xs[i][1] + 1) =>
        REq(RSub(ys[j], ys[i]), <<1, c.scales[BinOf(c.steps, c.xs[i])]>>)
SameSeq(a, b) == Len(a) = Len(b) /\ \A i \in Idx(a) : (IsNaN(a[i]) /\ IsNaN(b[i])) \/ (~IsNaN(a[i]) /\ ~IsNaN(b[i]) /\ REq(a[i], b[i]))

ModelOK(c) ==
  LET ys == Do(c) IN
  /\ P_Strict(c.xs, ys) /\ P_NaNKept(c.xs, ys)
  /\ SameSeq(Undo(c, ys), c.xs)
  /\ (c.mode = "mm" => P_Unit(ys) /\ P_MinRange(c, ys))
  /\ (c.mode = "st" => P_Continuous(c))

(* ---- enumeration of cases (spec -> code) ---- *)
RECURSIVE SeqsN(_, _)
SeqsN(S, n) == IF n = 0 THEN {<<>>} ELSE {Append(q, x) : q \in SeqsN(S, n - 1), x \in S}
ValSeqs(V, maxn) == UNION {SeqsN(V, n) : n \in 1..maxn}
SortedSubseqs(sq) == {SetToSortSeq(S, <) : S \in SUBSET {sq[i] : i \in Idx(sq)}}
Grid(n) == [i \in 1..(n + 1) |-> R(i - 1)]
WithNaNs(xs) == [i \in Idx(xs) |-> IF i % 7 = 3 THEN NaN ELSE xs[i]]
BaseCase == [mode |-> "ss", xs |-> <<>>, scale |-> 1, hasshift |-> FALSE, shift |-> 0, minrange |-> 0, steps |-> <<>>, scales |-> <<1>>]
Cases(V, maxn, Scales, StScales) ==
  LET VS == ValSeqs(V, maxn) IN
  {[BaseCase EXCEPT !.mode = "ss", !.xs = xs, !.scale = s, !.hasshift = hs, !.shift = sh] :
       xs \in VS, s \in Scales, hs \in BOOLEAN, sh \in {0, 10}}
  \cup {[BaseCase EXCEPT !.mode = "mm", !.xs = xs, !.minrange = mr] : xs \in VS, mr \in {0, 5, 100}}
  \cup UNION {{[BaseCase EXCEPT !.mode = "st", !.xs = xs, !.steps = st, !.scales = sc] :
                  sc \in SeqsN(StScales, Len(st) + 1), xs \in {Grid(50), WithNaNs(Grid(50))}} : st \in SortedSubseqs(<<10, 20, 30, 40>>)}
(* the physical range includes negative values (time deltas) and zero *)
(* ... and values whose spread is tiny compared with their size (a thin layer high up): 10000, 10000.01, 10000.05, 10001 *)
FarVals == {R(10000), <<1000001, 100>>, <<200001, 20>>, R(10001), NaN}
(* parameterised: TLC evaluates every constant-level definition without parameters when it starts, in the judging runs too *)
CaseSet(tier) == IF tier = "quick" THEN Cases({R(-60), R(-15), R(0), R(7), <<61, 2>>, R(60), NaN}, 3, {1, 2, 5}, {1, 2, 5}) \cup Cases(FarVals, 3, {1, 5}, {1, 5})
           ELSE Cases({R(-60), R(-15), R(0), R(7), <<61, 2>>, R(30), R(60), NaN}, 4, {1, 2, 5, 1000}, {1, 2, 5, 1000}) \cup Cases(FarVals, 4, {1, 5}, {1, 5})

(* ---- jobs ---- *)
VARIABLES job, done
Report(name, S) == PrintT(<<"R", name, S>>)
Export(tier, dir) == JsonSerialize(dir \o "/cases.json", SetToSeq({c \in CaseSet(tier) : InDomain(c)}))
(* a recorded case: [c, ok, exc, ys, zs (undo, as rationals), ysn (values obtained without the NaN entries, re-aligned)] *)
Judge ==
  LET C == job.cases  K == DOMAIN C  OK == {j \in K : C[j].ok} IN
  /\ Report("C19_Model", {j \in K : ~ModelOK(C[j].c)})
  /\ Report("C19_Total", {j \in K : ~C[j].ok})
  /\ Report("C19_NoReversal", {j \in OK : ~P_NoReversal(C[j].c.xs, C[j].ys)})
  /\ Report("C19_NaNKept", {j \in OK : ~P_NaNKept(C[j].c.xs, C[j].ys)})
  /\ Report("C19_NaNBlind", {j \in OK : ~SameSeq(C[j].ys, C[j].ysn)})
  /\ Report("C19_UndoRestores", {j \in OK : ~SameSeq(C[j].zs, C[j].c.xs)})
  /\ Report("C19_MinMaxUnit", {j \in OK : C[j].c.mode = "mm" /\ ~P_Unit(C[j].ys)})
  /\ Report("C19_MinRange", {j \in OK : C[j].c.mode = "mm" /\ ~P_MinRange(C[j].c, C[j].ys)})
  /\ Report("C19_StepContinuous", {j \in OK : C[j].c.mode = "st" /\ ~P_UnitSlope(C[j].c, C[j].ys)})
  /\ Report("I_Strict", {j \in OK : ~P_Strict(C[j].c.xs, C[j].ys)})
  /\ Report("I_Do", {j \in OK : ~SameSeq(C[j].ys, Do(C[j].c))})
Init == job = (IF IOEnv.MODE = "export" THEN [cases |-> <<>>] ELSE JsonDeserialize(IOEnv.JOB_FILE)) /\ done = FALSE
Next == ~done /\ done' = TRUE /\ job' = job /\ (IF IOEnv.MODE = "export" THEN Export(IOEnv.TIER, IOEnv.OUT_DIR) ELSE Judge)
Spec == Init /\ [][Next]_<<job, done>>
=============================================================================
