-------------------------------- MODULE Merge --------------------------------
(* The merging of close groups (CeiloChunk._merge_close_groups) as a loop   *)
(* of its own: one action per iteration.  Every group starts as one hit of   *)
(* the lattice; the loop merges the lowest pair that is too close, recomputes *)
(* the base of the merged group and goes on.  Checked: termination under weak *)
(* fairness, the number of groups strictly decreasing, and on exit every pair *)
(* of adjacent groups separated as C06 demands, with the bases the report     *)
(* (Table) shows.                                                             *)
EXTENDS Props, TLC
CONSTANTS Heights, MaxHits, PrmSet
VARIABLES d, prm, g, tb, done
vars == <<d, prm, g, tb, done>>

RECURSIVE SeqsUpTo(_, _)
SeqsUpTo(S, n) == IF n = 0 THEN {<<>>} ELSE SeqsUpTo(S, n - 1) \cup {Append(q, x) : q \in {y \in SeqsUpTo(S, n - 1) : Len(y) = n - 1}, x \in S}
Rows(hs) == [i \in 1..Len(hs) |-> [c |-> IF i % 2 = 0 THEN "a" ELSE "b", t |-> i, h |-> hs[i], k |-> 1]]

Init == /\ prm \in PrmSet
        /\ \E hs \in SeqsUpTo(Heights, MaxHits) \ {<<>>} : d = Rows(hs)
        /\ g = [i \in 1..Len(d) |-> i - 1]                       \* every hit its own group to start with
        /\ tb = PrelimTable(d, g, prm)
        /\ done = FALSE
Iterate == /\ ~done /\ ~MergeDone(tb, prm)
           /\ LET s == MergeStep(d, g, tb, prm, TRUE) IN g' = s.g /\ tb' = s.tb
           /\ UNCHANGED <<d, prm, done>>
Exit == /\ ~done /\ MergeDone(tb, prm) /\ done' = TRUE /\ UNCHANGED <<d, prm, g, tb>>
Next == Iterate \/ Exit
Spec == Init /\ [][Next]_vars /\ WF_vars(Next)

Inv_TableTracksGroups == {tb[i].cid : i \in 1..Len(tb)} = IdsPresent(g)
Inv_BasesCurrent == \A i \in 1..Len(tb) : tb[i].b = Base100(d, MemIdx(g, tb[i].cid), prm, TRUE)    \* never a stale base
Inv_ExitSeparated == done => C06_Groups(Table(d, g, prm, -1), prm)
Prop_Shrinks == [][~done' => Len(tb') < Len(tb)]_vars
Prop_Terminates == <>done
=============================================================================
