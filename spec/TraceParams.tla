----------------------------- MODULE TraceParams -----------------------------
(* Recorded walks over the real parameter store (dynamic.AMPYCLOUD_PRMS,     *)
(* chunk snapshots, caller dictionaries) replayed against ParamsOps: the      *)
(* property-level clauses of C11 / C12 are evaluated on the OBSERVED pre and   *)
(* post states of every step; the specification's own next state is compared  *)
(* with the observation as an implementation-level clause (I_ParamsStep).     *)
EXTENDS ParamsOps, Json, IOUtils, TLC, TLCExt

Walks == JsonDeserialize(IOEnv.TRACE_FILE)
VARIABLES tid, l, fails, marks, cur, ps
tvars == <<tid, l, fails, marks, cur, ps>>
View == <<tid, l>>
Chk(name, cond) == IF cond THEN {} ELSE {name}
Mark(name, cond) == IF cond THEN {name} ELSE {}

ToSet(sq) == {sq[i] : i \in 1..Len(sq)}
Act(e) == [op |-> e.a.op, c |-> e.a.c, u |-> e.a.u, path |-> e.a.path, v |-> e.a.v, has |-> ToSet(e.a.has)]
(* observed state in the shape of the specification's state *)
Obs(e) == [t |-> e.o.t, built |-> <<e.o.built[1], e.o.built[2]>>,
           has |-> [r \in {"U1", "U2"} |-> ToSet(e.o.has[r])], lid |-> e.o.lid]
Obs0 == InitState

StepFails(pre, e, spre) ==
  LET a == Act(e)  post == Obs(e)  o == e.o IN
  Chk(IF a.op \in {"yaml", "resetall", "reset"} THEN "C12_RouteAccepted" ELSE "C11_OnlyExpectedExceptions", e.exc = "") \cup
  Chk("C11_ConstructKeeps", C11_ConstructKeeps(pre, a, post)) \cup
  Chk("C11_GlobalEditNoEffect", C11_GlobalEditNoEffect(pre, a, post)) \cup
  Chk("C11_SnapEditNoLeak", C11_SnapEditNoLeak(pre, a, post)) \cup
  Chk("C11_Private", C11_Private(post)) \cup
  Chk("C11_NoDictShared", o.dictshared = 0) \cup
  Chk("C11_FrameUntouched", o.frameok) \cup
  Chk("C11_OtherLeavesUntouched", a.op \in {"construct", "run"} => o.restsame) \cup
  Chk("C12_Overlay", C12_Overlay(pre, a, post)) \cup
  Chk("C12_Yaml", C12_Yaml(pre, a, post)) \cup
  Chk("C12_ResetAll", C12_ResetAll(pre, a, post) /\ (a.op = "resetall" => o.restdefault)) \cup
  Chk("C12_ResetNamed", C12_ResetNamed(pre, a, post)) \cup
  Chk("C12_UnknownWarned", Warns(pre, a) <=> o.warned) \cup
  Chk("C12_NoKeyAdded", o.extrakeys = 0) \cup
  Chk("C12_OtherLeavesFromGlobal", o.restdefault) \cup
  Chk("I_ParamsStep", Enabled(spre, a) /\ LET n == Step(spre, a) IN n.t = post.t /\ n.lid = post.lid /\ n.built = post.built /\ n.has = post.has)
StepMarks(pre, e) ==
  LET a == Act(e)  post == Obs(e) IN
  Mark("N_" \o a.op, TRUE) \cup
  Mark("N_aliased", \E x, y \in Roots : x # y /\ post.lid[x] = post.lid[y]) \cup
  Mark("N_unknown", Warns(pre, a)) \cup
  Mark("N_dirtyglobal", post.t["G"] # Default) \cup
  Mark("N_overrides", a.op = "construct" /\ a.u # 0 /\ pre.has[CallRoot(a.u)] \cap KnownPaths # {} /\ pre.t["G"] # Default)

Init == LET all == Walks IN
        \E i \in DOMAIN all : tid = i /\ cur = all[i] /\ l = 0 /\ fails = {} /\ marks = {} /\ ps = InitState
Next == /\ l < Len(cur.events)
        /\ l' = l + 1 /\ tid' = tid /\ cur' = cur
        /\ LET e == cur.events[l + 1]  pre == IF l = 0 THEN Obs0 ELSE Obs(cur.events[l]) IN
           /\ fails' = StepFails(pre, e, ps)
           /\ marks' = StepMarks(pre, e)
           /\ ps' = IF Enabled(ps, Act(e)) THEN Step(ps, Act(e)) ELSE ps
        /\ PrintT(<<"V", cur.tid, l + 1, fails', marks'>>)
Spec == Init /\ [][Next]_tvars
=============================================================================
