------------------------------- MODULE WMO -------------------------------
(* WMO conversions of ampycloud (wmo.py) over exact integers.              *)
EXTENDS Num

(* ---- sky coverage ---------------------------------------------------- *)
(* perc2okta(n/m*100) as implemented: 0 only for n=0, 8 only for n=m,      *)
(* 1-okta and 7-okta bins widened, half-even rounding in between           *)
(* (RoundHalfEvenOkta: implementation level).                              *)
Perc2Okta(n, m) ==
  IF n = 0 THEN 0 ELSE IF n = m THEN 8
  ELSE IF 8 * n < m THEN 1 ELSE IF 8 * n > 7 * m THEN 7
  ELSE LET q == (8 * n) \div m   r2 == 2 * ((8 * n) % m)
       IN IF r2 < m THEN q ELSE IF r2 > m THEN q + 1
          ELSE IF q % 2 = 0 THEN q ELSE q + 1

(* Property level: the set of admissible oktas ("nearest okta clipped to   *)
(* 1..7"; at an exact tie either neighbour is a nearest okta).             *)
Perc2OktaSet(n, m) ==
  IF n = 0 THEN {0} ELSE IF n = m THEN {8}
  ELSE LET q == (8 * n) \div m   r2 == 2 * ((8 * n) % m)
           near == IF r2 < m THEN {q} ELSE IF r2 > m THEN {q + 1} ELSE {q, q + 1}
       IN {Max2(1, Min2(7, o)) : o \in near}

Okta(n, m, H0, H8) == IF n <= H0 THEN 0 ELSE IF m - n <= H8 THEN 8 ELSE Perc2Okta(n, m)
OktaSet(n, m, H0, H8) == IF n <= H0 THEN {0} ELSE IF m - n <= H8 THEN {8} ELSE Perc2OktaSet(n, m)

(* ---- okta abbreviations, as character codes --------------------------- *)
cNCD == <<78, 67, 68>>
cNSC == <<78, 83, 67>>
cFEW == <<70, 69, 87>>
cSCT == <<83, 67, 84>>
cBKN == <<66, 75, 78>>
cOVC == <<79, 86, 67>>
OktaNameC(o) == IF o = 0 THEN cNCD ELSE IF o \in {1, 2} THEN cFEW ELSE IF o \in {3, 4} THEN cSCT
                ELSE IF o \in {5, 6, 7} THEN cBKN ELSE cOVC
(* okta2code on integers -2..11: "ok"+name, "none" for 9, "refuse" else *)
Okta2CodeTotal(o) == IF o \in 0..8 THEN [k |-> "ok", c |-> OktaNameC(o)]
                     ELSE IF o = 9 THEN [k |-> "none", c |-> <<>>]
                     ELSE [k |-> "refuse", c |-> <<>>]
NameRank(c) == IF c = cFEW THEN 1 ELSE IF c = cSCT THEN 2 ELSE IF c = cBKN THEN 3
               ELSE IF c = cOVC THEN 4 ELSE 0

(* ---- height coding ---------------------------------------------------- *)
(* height2code on a height given in centi-feet: hundreds of feet up to and *)
(* including 10000 ft, thousands (times ten) above.                        *)
HCode(b100) == IF b100 <= 1000000 THEN b100 \div 10000 ELSE (b100 \div 100000) * 10
Digits3(x) == <<48 + ((x \div 100) % 10), 48 + ((x \div 10) % 10), 48 + (x % 10)>>
(* a float base f = [v, d]: admissible coded values.  When the float sits   *)
(* one rounding below a coding boundary the division inside height2code    *)
(* may land on either side (FloatTie).                                     *)
HCodeSet(f) == IF f.d < 0 THEN {HCode(f.v), HCode(f.v - 1)} ELSE {HCode(f.v)}
(* value (in centi-feet) that three digits stand for *)
CodeValue100(x) == x * 10000

IsDigit(c) == c \in 48..57
DigitsVal(sq) == 100 * (sq[1] - 48) + 10 * (sq[2] - 48) + (sq[3] - 48)

=============================================================================
