------------------------------ MODULE LayerIds ------------------------------
(* The id space of the layering step with the REAL constants: groups that   *)
(* are not split keep their group id (a slice label, unbounded) as layer    *)
(* id; split groups get LayerId(off, ind, k).  With off = 100 (pinned tree) *)
(* a group id >= 100 can collide with a generated id; with the offset above *)
(* every group id (repaired tree) it cannot.                                *)
EXTENDS ChunkOps
CONSTANTS FixedIds, IdPool, MaxGroups

VARIABLES gids, labs      \* group id per table row ; label set per row ({} = not split)
vars == <<gids, labs>>

LabelSets == {{}} \cup {L \in SUBSET {0, 1, 2} : Cardinality(L) >= 2}
RECURSIVE DistinctSeqs(_)
DistinctSeqs(n) == IF n = 0 THEN {<<>>}
                   ELSE {Append(q, x) : q \in DistinctSeqs(n - 1), x \in IdPool} 
Init == /\ gids \in {q \in UNION {DistinctSeqs(n) : n \in 1..MaxGroups} : \A i, j \in DOMAIN q : i # j => q[i] # q[j]}
        /\ labs \in [DOMAIN gids -> LabelSets]
Next == UNCHANGED vars
Spec == Init /\ [][Next]_vars

Off == IF FixedIds THEN Max2(100, SetMax(SeqToSet(gids)) + 1) ELSE 100
LayerIdsOf(r) == IF labs[r] = {} THEN {gids[r]} ELSE {LayerId(Off, r, k) : k \in labs[r]}
(* C05: each layer lies inside exactly one group; k sub-components give k layers *)
Inv_LayerInOneGroup == \A r1, r2 \in DOMAIN gids : r1 # r2 => LayerIdsOf(r1) \cap LayerIdsOf(r2) = {}
Inv_NcompCount == \A r \in DOMAIN gids : Cardinality(LayerIdsOf(r)) = (IF labs[r] = {} THEN 1 ELSE Cardinality(labs[r]))
=============================================================================
