---- MODULE MC_Merge_TTrace_1790985767 ----
EXTENDS Sequences, TLCExt, Toolbox, Naturals, TLC, MC_Merge

_expression ==
    LET MC_Merge_TEExpression == INSTANCE MC_Merge_TEExpression
    IN MC_Merge_TEExpression!expression
----

_trace ==
    LET MC_Merge_TETrace == INSTANCE MC_Merge_TETrace
    IN MC_Merge_TETrace!trace
----

_inv ==
    ~(
        TLCGet("level") = Len(_TETrace)
        /\
        d = (<<[c |-> "b", t |-> 1, h |-> 1000, k |-> 1]>>)
        /\
        g = (<<0>>)
        /\
        prm = ([hasmsa |-> FALSE, msa |-> 0, buf |-> 0, h0 |-> 0, h8 |-> 0, p |-> 0, lb |-> 50, excl |-> <<>>, sepv |-> <<250, 400>>, sepl |-> <<1225>>, minokta |-> 2, minpts |-> 3, pad |-> 10])
        /\
        done = (TRUE)
        /\
        tb = (<<[cid |-> 0, b |-> 100000]>>)
    )
----

_init ==
    /\ prm = _TETrace[1].prm
    /\ d = _TETrace[1].d
    /\ g = _TETrace[1].g
    /\ done = _TETrace[1].done
    /\ tb = _TETrace[1].tb
----

_next ==
    /\ \E i,j \in DOMAIN _TETrace:
        /\ \/ /\ j = i + 1
              /\ i = TLCGet("level")
        /\ prm  = _TETrace[i].prm
        /\ prm' = _TETrace[j].prm
        /\ d  = _TETrace[i].d
        /\ d' = _TETrace[j].d
        /\ g  = _TETrace[i].g
        /\ g' = _TETrace[j].g
        /\ done  = _TETrace[i].done
        /\ done' = _TETrace[j].done
        /\ tb  = _TETrace[i].tb
        /\ tb' = _TETrace[j].tb

\* Uncomment the ASSUME below to write the states of the error trace
\* to the given file in Json format. Note that you can pass any tuple
\* to `JsonSerialize`. For example, a sub-sequence of _TETrace.
    \* ASSUME
    \*     LET J == INSTANCE Json
    \*         IN J!JsonSerialize("MC_Merge_TTrace_1790985767.json", _TETrace)

=============================================================================

 Note that you can extract this module `MC_Merge_TEExpression`
  to a dedicated file to reuse `expression` (the module in the 
  dedicated `MC_Merge_TEExpression.tla` file takes precedence 
  over the module `MC_Merge_TEExpression` below).

---- MODULE MC_Merge_TEExpression ----
EXTENDS Sequences, TLCExt, Toolbox, Naturals, TLC, MC_Merge

expression == 
    [
        \* To hide variables of the `MC_Merge` spec from the error trace,
        \* remove the variables below.  The trace will be written in the order
        \* of the fields of this record.
        prm |-> prm
        ,d |-> d
        ,g |-> g
        ,done |-> done
        ,tb |-> tb
        
        \* Put additional constant-, state-, and action-level expressions here:
        \* ,_stateNumber |-> _TEPosition
        \* ,_prmUnchanged |-> prm = prm'
        
        \* Format the `prm` variable as Json value.
        \* ,_prmJson |->
        \*     LET J == INSTANCE Json
        \*     IN J!ToJson(prm)
        
        \* Lastly, you may build expressions over arbitrary sets of states by
        \* leveraging the _TETrace operator.  For example, this is how to
        \* count the number of times a spec variable changed up to the current
        \* state in the trace.
        \* ,_prmModCount |->
        \*     LET F[s \in DOMAIN _TETrace] ==
        \*         IF s = 1 THEN 0
        \*         ELSE IF _TETrace[s].prm # _TETrace[s-1].prm
        \*             THEN 1 + F[s-1] ELSE F[s-1]
        \*     IN F[_TEPosition - 1]
    ]

=============================================================================



Parsing and semantic processing can take forever if the trace below is long.
 In this case, it is advised to uncomment the module below to deserialize the
 trace from a generated binary file.

\*
\*---- MODULE MC_Merge_TETrace ----
\*EXTENDS IOUtils, TLC, MC_Merge
\*
\*trace == IODeserialize("MC_Merge_TTrace_1790985767.bin", TRUE)
\*
\*=============================================================================
\*

---- MODULE MC_Merge_TETrace ----
EXTENDS TLC, MC_Merge

trace == 
    <<
    ([d |-> <<[c |-> "b", t |-> 1, h |-> 1000, k |-> 1]>>,g |-> <<0>>,prm |-> [hasmsa |-> FALSE, msa |-> 0, buf |-> 0, h0 |-> 0, h8 |-> 0, p |-> 0, lb |-> 50, excl |-> <<>>, sepv |-> <<250, 400>>, sepl |-> <<1225>>, minokta |-> 2, minpts |-> 3, pad |-> 10],done |-> FALSE,tb |-> <<[cid |-> 0, b |-> 100000]>>]),
    ([d |-> <<[c |-> "b", t |-> 1, h |-> 1000, k |-> 1]>>,g |-> <<0>>,prm |-> [hasmsa |-> FALSE, msa |-> 0, buf |-> 0, h0 |-> 0, h8 |-> 0, p |-> 0, lb |-> 50, excl |-> <<>>, sepv |-> <<250, 400>>, sepl |-> <<1225>>, minokta |-> 2, minpts |-> 3, pad |-> 10],done |-> TRUE,tb |-> <<[cid |-> 0, b |-> 100000]>>])
    >>
----


=============================================================================

---- CONFIG MC_Merge_TTrace_1790985767 ----
CONSTANTS
    Heights = { 1000 , 1200 , 1250 , 1450 , 1600 }
    MaxHits = 4
    PrmSet <- MergePrms

INVARIANT
    _inv

CHECK_DEADLOCK
    \* CHECK_DEADLOCK off because of PROPERTY or INVARIANT above.
    FALSE

INIT
    _init

NEXT
    _next

CONSTANT
    _TETrace <- _trace

ALIAS
    _expression
=============================================================================
\* Generated on Sat Oct 03 00:02:56 UTC 2026