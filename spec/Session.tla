------------------------------- MODULE Session -------------------------------
(* Design-level model of C09: results are a function F of (data, parameters) *)
(* and ampycloud actions restore the random state they found; explored for   *)
(* every history over 2 data sets, 2 parameter sets and 3 abstract random     *)
(* states (complete: the state space is finite).                              *)
EXTENDS SessionOps, TLC
CONSTANTS ND, NP, NR
VARIABLES rng, seen, last
vars == <<rng, seen, last>>
F(d, p) == 10 * d + p                 \* any fixed function of (d, p): the mixture fits are seeded (random_state=42)
Init == rng = 0 /\ seen = <<>> /\ last = [act |-> "none", d |-> 0, p |-> 0, rb |-> 0, ra |-> 0, res |-> NoResult, exc |-> ""]
Run(d, p) == LET e == [act |-> "run", d |-> d, p |-> p, rb |-> rng, ra |-> rng, res |-> F(d, p), exc |-> ""] IN
             /\ last' = e /\ rng' = rng /\ seen' = Remember(seen, e)        \* tmp_seed: save, seed, fit, restore
Tmp(kind) == last' = [act |-> kind, d |-> 0, p |-> 0, rb |-> rng, ra |-> rng, res |-> NoResult, exc |-> ""] /\ rng' = rng /\ seen' = seen
Seed(v) == last' = [act |-> "seed", d |-> 0, p |-> 0, rb |-> rng, ra |-> v, res |-> NoResult, exc |-> ""] /\ rng' = v /\ seen' = seen
Draw == last' = [act |-> "draw", d |-> 0, p |-> 0, rb |-> rng, ra |-> (rng + 1) % NR, res |-> NoResult, exc |-> ""] /\ rng' = (rng + 1) % NR /\ seen' = seen
Gmm(v) == LET e == [act |-> "gmm", d |-> 8, p |-> v, rb |-> rng, ra |-> rng, res |-> 1000 + v, exc |-> ""] IN
          last' = e /\ rng' = rng /\ seen' = Remember(seen, e)       \* the mixture fits use a private generator seeded with v
Gauss == last' = [act |-> "gauss", d |-> 0, p |-> 0, rb |-> rng, ra |-> (rng + 2) % NR, res |-> NoResult, exc |-> ""] /\ rng' = (rng + 2) % NR /\ seen' = seen
Next == (\E d \in 0..(ND - 1), p \in 0..(NP - 1) : Run(d, p)) \/ Tmp("tmpok") \/ Tmp("tmpraise") \/ (\E v \in 0..(NR - 1) : Seed(v)) \/ Draw \/ Gauss \/ (\E v \in 0..2 : Gmm(v))
Spec == Init /\ [][Next]_vars
Inv_Rng == C09_RngUntouched(last)
Prop_Reproducible == [][C09_SameAsBefore(seen, last')]_vars
=============================================================================
