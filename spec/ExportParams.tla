---------------------------- MODULE ExportParams ----------------------------
EXTENDS ParamsOps, Json, IOUtils, TLC, SequencesExt
ASSUME JsonSerialize(IOEnv.OUT_DIR \o "/actions.json", SetToSeq(Actions))
ASSUME JsonSerialize(IOEnv.OUT_DIR \o "/actions_mc.json", SetToSeq(ActionsMC))
=============================================================================
