------------------------------ MODULE TracePair ------------------------------
(* Pairs of recorded executions whose inputs are related by a transformation *)
(* under which the outcome must not change (C07, C10, C16).  The pair is     *)
(* replayed in lock-step; TLC first checks that the driver really produced   *)
(* the intended relation between the two inputs (X_Premise: a machinery      *)
(* failure, not a verdict), then compares the projections step by step.      *)
(*   kind "c07new"   : heights above MSA+buffer replaced by other heights    *)
(*                     above the limit                                       *)
(*   kind "c07blank" : hits above the limit replaced by non-detections       *)
(*                     (second and higher hits removed)                      *)
(*   kind "c10"      : same values; other index labels / layout / dtypes     *)
(*   kind "c16"      : ceilometers renamed by a bijection (exclusion list    *)
(*                     mapped accordingly)                                   *)
EXTENDS Props, Json, IOUtils, TLCExt

Pairs == JsonDeserialize(IOEnv.TRACE_FILE)
VARIABLES tid, l, fails, marks, cur
tvars == <<tid, l, fails, marks, cur>>
View == <<tid, l>>

Chk(name, cond) == IF cond THEN {} ELSE {name}
Mark(name, cond) == IF cond THEN {name} ELSE {}

Rho(p, c) == IF \E j \in Idx(p.rho) : p.rho[j][1] = c
             THEN p.rho[CHOOSE j \in Idx(p.rho) : p.rho[j][1] = c][2] ELSE c
RenameRows(p, rows) == [i \in Idx(rows) |-> [rows[i] EXCEPT !.c = Rho(p, rows[i].c)]]

(* ---- the relation between the two inputs ---- *)
Kept(rows, prm) == SelectSeq(rows, LAMBDA r : ~IsAbove(r, prm))
(* the parameter record is only known for a run whose construction succeeded *)
PrmSame(a, b) == a.events[1].res # "ok" \/ b.events[1].res # "ok" \/ a.prm = b.prm
Premise(p) ==
  LET a == p.a  b == p.b IN
  CASE p.kind = "c07new" ->
         /\ PrmSame(a, b) /\ Len(a.raw) = Len(b.raw)
         /\ \A i \in Idx(a.raw) :
              IF IsAbove(a.raw[i], a.prm)
              THEN IsAbove(b.raw[i], b.prm) /\ b.raw[i].c = a.raw[i].c /\ b.raw[i].t = a.raw[i].t /\ b.raw[i].k = a.raw[i].k
              ELSE b.raw[i] = a.raw[i]
    [] p.kind = "c07blank" ->
         /\ PrmSame(a, b) /\ NAbove(b.raw, a.prm) = 0
         /\ Kept(b.raw, a.prm) = Crop(a.raw, a.prm)
    [] p.kind \in {"c10", "c13"} -> PrmSame(a, b) /\ a.raw = b.raw
    [] p.kind \in {"c11", "c12"} -> a.raw = b.raw            \* that every route delivers the same parameters is C12 itself, not a premise
    [] p.kind = "c16" ->
         /\ b.raw = RenameRows(p, a.raw)
         /\ (a.events[1].res # "ok" \/ b.events[1].res # "ok" \/ b.prm = [a.prm EXCEPT !.excl = [j \in Idx(a.prm.excl) |-> Rho(p, a.prm.excl[j])]])
         /\ \A i, j \in Idx(p.rho) : i # j => p.rho[i][1] # p.rho[j][1] /\ p.rho[i][2] # p.rho[j][2]

SameTables(ea, eb) == ea.tbl = eb.tbl /\ ea.hast = eb.hast /\ ea.nrep = eb.nrep
SameIds(ea, eb) == ea.ids = eb.ids /\ ea.has = eb.has

StepFails(p, k) ==
  LET ea == p.a.events[k]  eb == p.b.events[k]  P == IF p.kind \in {"c07new", "c07blank"} THEN "C07" ELSE IF p.kind = "c10" THEN "C10" ELSE IF p.kind = "c11" THEN "C11" ELSE IF p.kind = "c12" THEN "C12" ELSE IF p.kind = "c13" THEN "C13" ELSE "C16" IN
  (IF k = 1 THEN Chk("X_Premise", Premise(p)) ELSE {}) \cup
  (IF k = 1 /\ p.kind \in {"c11", "c12"} THEN Chk(P \o "_SameParams", PrmSame(p.a, p.b)) ELSE {}) \cup
  Chk(P \o "_SameOutcome", ea.res = eb.res /\ ea.exc = eb.exc /\ ea.op = eb.op) \cup
  Chk(P \o "_SameTables", SameTables(ea, eb)) \cup
  Chk(P \o "_SameIds", SameIds(ea, eb)) \cup
  (IF p.kind = "c16" THEN Chk("C16_SameData", eb.data = RenameRows(p, ea.data) /\ ea.flag = eb.flag)
   ELSE IF p.kind \in {"c10", "c11", "c12", "c13"} THEN Chk(P \o "_SameData", eb.data = ea.data /\ ea.flag = eb.flag)
   ELSE Chk("C07_SameData", eb.data = ea.data)) \cup
  (IF p.kind # "c07blank" THEN Chk(P \o "_SameMessage", ea.msg = eb.msg /\ ea.hasmsg = eb.hasmsg) ELSE {}) \cup
  (IF p.kind = "c07new" THEN Chk("C07_SameFlag", ea.flag = eb.flag) ELSE {})

StepMarks(p, k) ==
  LET ea == p.a.events[k] IN
  Mark("N_crop", k = 1 /\ NAbove(p.a.raw, p.a.prm) > 0) \cup
  Mark("N_cropdrop", k = 1 /\ \E i \in Idx(p.a.raw) : IsAbove(p.a.raw[i], p.a.prm) /\ p.a.raw[i].k > 1) \cup
  Mark("N_atlimit", k = 1 /\ p.a.prm.hasmsa /\ \E i \in Idx(p.a.raw) : p.a.raw[i].h = Lim(p.a.prm)) \cup
  Mark("N_flag", ea.flag) \cup
  Mark("N_excl", k = 1 /\ p.a.prm.excl # <<>>) \cup
  Mark("N_lookback", k = 1 /\ p.a.prm.lb < 100) \cup
  Mark("N_rows", Len(ea.tbl.layers) > 0) \cup
  Mark("N_split", \E r \in Idx(ea.tbl.groups) : ea.tbl.groups[r].x >= 2) \cup
  Mark("N_exc", ea.res = "exc")

Init == LET all == Pairs IN
        \E i \in DOMAIN all : tid = i /\ cur = all[i] /\ l = 0 /\ fails = {} /\ marks = {}
Next == /\ l < Len(cur.a.events) /\ l < Len(cur.b.events)
        /\ l' = l + 1 /\ tid' = tid /\ cur' = cur
        /\ fails' = StepFails(cur, l + 1) \cup
                    (IF l + 1 = Len(cur.a.events) \/ l + 1 = Len(cur.b.events)
                     THEN Chk("X_SameLength", Len(cur.a.events) = Len(cur.b.events)) ELSE {})
        /\ marks' = StepMarks(cur, l + 1)
        /\ PrintT(<<"V", cur.tid, l + 1, fails', marks'>>)
Spec == Init /\ [][Next]_tvars
=============================================================================
