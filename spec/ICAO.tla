------------------------------- MODULE ICAO -------------------------------
(* The ICAO 1-3-5 selection of significant cloud layers (icao.py).         *)
EXTENDS Num

(* ---- implementation level: the fold of significant_cloud() ------------ *)
SigStep(p, okta) ==
  IF okta > p.lvl /\ p.cnt < 3
  THEN [lvl |-> p.lvl + 2, cnt |-> p.cnt + 1, out |-> Append(p.out, TRUE)]
  ELSE [lvl |-> p.lvl,     cnt |-> p.cnt,     out |-> Append(p.out, FALSE)]
SigInit == [lvl |-> 0, cnt |-> 0, out |-> <<>>]

RECURSIVE SigFold(_, _)
SigFold(oktas, i) == IF i = 0 THEN SigInit ELSE SigStep(SigFold(oktas, i - 1), oktas[i])
SigFlags(oktas) == SigFold(oktas, Len(oktas)).out

(* ---- property level: the declarative 1-3-5 rule ----------------------- *)
FlagsBelow(flags, i) == Cardinality({j \in 1..(i - 1) : flags[j]})
SigRuleHolds(oktas, flags) ==
  /\ Len(flags) = Len(oktas)
  /\ \A i \in 1..Len(oktas) :
       flags[i] <=> (FlagsBelow(flags, i) < 3 /\ oktas[i] >= 1 + 2 * FlagsBelow(flags, i))

(* ---- the 4-state automaton used for the unbounded argument ------------ *)
(* state = number of flags raised so far (0..3); the threshold is 1+2*cnt  *)
AutoStep(cnt, okta) == IF cnt < 3 /\ okta >= 1 + 2 * cnt THEN cnt + 1 ELSE cnt
AutoFlag(cnt, okta) == cnt < 3 /\ okta >= 1 + 2 * cnt

=============================================================================
